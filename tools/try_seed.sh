#!/bin/sh
# usage: tools/try_seed.sh <patch.diff> <Cnn> [--only a,b]   -- applies patch to /repo, runs quick check, reverts
P="$1"; ID="$2"; shift 2
cd /repo && git apply "$P" || { echo "apply failed"; exit 3; }
cd /verif && ./check "$ID" --tier quick "$@" > /tmp/try_seed_$ID.log 2>&1; RC=$?
cd /repo && git checkout -- . && git status --short | head -3
grep -E "VIOLATION|REFUTED|HARNESS-ERROR|INCONCLUSIVE|tier=" /tmp/try_seed_$ID.log | head -20
echo "rc=$RC"
