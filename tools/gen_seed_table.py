#!/usr/bin/env python3
"""Rewrites the seeded-change table of DESIGN.md (between the SEED-TABLE markers) from seeded/*/*/meta.json."""
import glob, json, re
rows = ["| seed | caught by | note |", "|---|---|---|"]
n = 0
for d in sorted(glob.glob("/verif/seeded/*/*/meta.json")):
    m = json.load(open(d)); pid, mm = d.split("/")[-3], d.split("/")[-2]
    cb = m["check_result"]["caught_by"]; note = m["check_result"].get("note", "")
    rows.append("| %s/%s | %s | %s |" % (pid, mm, cb.replace("|", "/")[:170], note.replace("|", "/")[:260]))
    n += 1
s = open("/verif/DESIGN.md").read()
b, e = "<!-- SEED-TABLE-BEGIN -->", "<!-- SEED-TABLE-END -->"
i, j = s.index(b) + len(b), s.index(e)
s = s[:i] + "\n" + "\n".join(rows) + "\n" + s[j:]
open("/verif/DESIGN.md", "w").write(s)
print("rows", n)
