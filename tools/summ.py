import json,sys
d=json.loads(sys.stdin.read().strip().splitlines()[-1])
w=d.get('witness',{})
print(d.get('fn'), d.get('state'), 'paths',d.get('paths'),'cpu',d.get('cpu_s'),'| wit',w.get('state'), w.get('native_holds'))
if d.get('state') not in ('CONFIRMED',):
    print('   model:', json.dumps(d.get('model')), '\n   native:', d.get('native_detail'), '\n   detail:', (d.get('detail') or '')[:1500])
