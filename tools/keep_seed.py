#!/usr/bin/env python3
"""usage: keep_seed.py <Cnn> <mN> <caught_by or 'MISSED'> [free-text]   copies /tmp/seed_out/<Cnn>/<mN> into /verif/seeded/<Cnn>/<mN>"""
import json, os, shutil, sys
pid, m, caught = sys.argv[1:4]
extra = " ".join(sys.argv[4:])
src = f"/tmp/seed_out/{pid}/{m}"
dst = f"/verif/seeded/{pid}/{m}"
conf = json.load(open(os.path.join(src, "confirm.json")))
assert conf["demo_rc_pristine"] == 0 and conf["demo_rc_patched"] != 0 and conf["suite_rc_patched"] == 0, conf
os.makedirs(dst, exist_ok=True)
shutil.copy(os.path.join(src, "patch.diff"), dst)
shutil.copy(os.path.join(src, "demo.py"), dst)
notes = open(os.path.join(src, "notes.txt")).read() if os.path.exists(os.path.join(src, "notes.txt")) else ""
meta = {
    "property": pid,
    "origin": "independent sub-agent given only the property text and a scratch worktree",
    "what_and_needs_to_manifest": notes.strip(),
    "confirmed_by_me": {
        "how": "tools/confirm_seed.sh in a fresh scratch worktree: demo on pristine tree, demo with patch, full pytest suite with patch",
        "demo_rc_pristine": conf["demo_rc_pristine"], "demo_rc_patched": conf["demo_rc_patched"], "suite_rc_patched": conf["suite_rc_patched"],
    },
    "check_result": {"cmd": f"git -C /repo apply seeded/{pid}/{m}/patch.diff && ./check {pid} --tier quick; git -C /repo checkout -- .", "caught_by": caught, "note": extra},
}
json.dump(meta, open(os.path.join(dst, "meta.json"), "w"), indent=1)
print("kept", dst)
