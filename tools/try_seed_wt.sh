#!/bin/sh
# usage: tools/try_seed_wt.sh <patch.diff> <Cnn> [check args...]
# Like try_seed.sh but never touches /repo: applies the patch in a scratch worktree and points the checks at it (VERIF_REPO);
# evidence of the trial goes to a scratch directory.  The worktree is removed afterwards.
P="$(realpath "$1")"; ID="$2"; shift 2
WT="/tmp/wts_${ID}_$$"
git -C /repo worktree add -q --detach "$WT" HEAD || exit 3
( cd "$WT" && git apply "$P" ) || { echo "apply failed"; git -C /repo worktree remove --force "$WT"; exit 3; }
cd /verif && VERIF_REPO="$WT" VERIF_EVIDENCE_DIR="/tmp/try_evidence" ./check "$ID" --tier quick "$@" > /tmp/try_seed_${ID}_$$.log 2>&1; RC=$?
git -C /repo worktree remove --force "$WT"
grep -E "VIOLATION|REFUTED|HARNESS-ERROR|INCONCLUSIVE|tier=" /tmp/try_seed_${ID}_$$.log | head -20
echo "rc=$RC"
