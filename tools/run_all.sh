#!/bin/sh
# usage: tools/run_all.sh quick|thorough [ids...]  -> /tmp/runall_<tier>.log (one line per check), per-check logs next to it
TIER=${1:-quick}
shift 2>/dev/null
IDS=${*:-C01 C02 C03 C04 C05 C06 C07 C08 C09 C10 C11 C12 C13 C14 C15 C16 C17 C18 C19 C20}
cd /verif
: > /tmp/runall_$TIER.log
for id in $IDS; do
  S=$(date +%s)
  ./check $id --tier $TIER > /tmp/runall_${TIER}_$id.log 2>&1; RC=$?
  E=$(date +%s)
  echo "$id rc=$RC wall=$((E-S))s $(tail -1 /tmp/runall_${TIER}_$id.log)" >> /tmp/runall_$TIER.log
done
echo DONE >> /tmp/runall_$TIER.log
