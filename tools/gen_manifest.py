#!/usr/bin/env python3
"""Regenerates MANIFEST.json from tools/props_meta.json + the harness files present."""
import glob, json, os
HERE = os.path.dirname(os.path.dirname(os.path.abspath(__file__)))
meta = json.load(open(os.path.join(HERE, "tools", "props_meta.json")))
props = [json.loads(l) for l in open(os.path.join(HERE, "properties.jsonl"))]
checks, na = [], []
for p in props:
    pid = p["id"]
    m = meta.get(pid, {})
    have = glob.glob(os.path.join(HERE, "harness", pid.lower() + "*.py"))
    if have and not m.get("not_applicable"):
        checks.append({
            "property_id": pid,
            "quick_cmd": f"./check {pid} --tier quick",
            "thorough_cmd": f"./check {pid} --tier thorough",
            "evidence_file": f"evidence/{pid}.json",
            "replay_cmd_template": f"./check {pid} --replay {{path}}",
            "engine": "symx",
            "level_claimed": {"category": "model_checking", "text": m["text"], "design_ref": m.get("design_ref", "DESIGN.md §3 " + pid)},
            "level_note": m["note"],
            "technique": m.get("technique", "bounded symbolic execution of the real Python functions (CrossHair) with z3 deciding every branch; path-tree exhaustion or replayed counterexample"),
        })
    else:
        na.append({"property_id": pid, "reason": m.get("not_applicable") or "check not built yet (build round in progress)"})
man = {
    "version": 1,
    "setup_cmd": "./setup.sh",
    "hooks": {
        "guard": "CLEMATIS3_VERIF",
        "enable": "no source hooks: harnesses import /repo's modules as they are and rebind module attributes from outside (CLEMATIS3_VERIF is reserved and unused)",
        "baseline_off_cmd": "cd /repo && /venv/bin/python -m pytest -ra -q -p no:cacheprovider --timeout=900 --continue-on-collection-errors",
        "source_commits": meta.get("_source_commits", []),
        "add_only": True,
    },
    "engines": [{
        "name": "symx",
        "path": "engine/",
        "serves_properties": [c["property_id"] for c in checks],
        "kind_free_text": "solver-based checking of the real code: CrossHair 0.0.110 symbolic execution of /repo's Python functions, z3 5.1 decides each branch; per-obligation subprocess, path-tree exhaustion = holds within bounds, model = counterexample replayed natively before VIOLATION",
    }],
    "checks": checks,
    "not_applicable": na,
    "notes": "See DESIGN.md. Every check rebuilds its encoding from /repo's working tree on each run (the harness imports the real modules). Exit 2 = harness/engine error, never a verdict. Fix commits in /repo (unguarded, 'fix:') are listed in known_findings.json.",
}
json.dump(man, open(os.path.join(HERE, "MANIFEST.json"), "w"), indent=1)
print("checks:", [c["property_id"] for c in checks], "na:", [x["property_id"] for x in na])
