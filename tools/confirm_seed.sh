#!/bin/sh
# usage: tools/confirm_seed.sh <Cnn> <mN>    (reads /tmp/seed_out/<Cnn>/<mN>/{patch.diff,demo.py}); writes /tmp/seed_out/<Cnn>/<mN>/confirm.json
ID="$1"; M="$2"; D="/tmp/seed_out/$ID/$M"; WT="/tmp/wtc_${ID}_$M"
[ -f "$D/patch.diff" ] && [ -f "$D/demo.py" ] || { echo "missing files in $D"; exit 2; }
git -C /repo worktree add -q --detach "$WT" HEAD || exit 2
cd "$WT"
PYTHONPATH="$WT" timeout 300 /venv/bin/python "$D/demo.py" >"$D/demo_pristine.log" 2>&1; RC_PRISTINE=$?
git apply "$D/patch.diff" || { echo "apply failed"; git -C /repo worktree remove --force "$WT"; exit 2; }
PYTHONPATH="$WT" timeout 300 /venv/bin/python "$D/demo.py" >"$D/demo_patched.log" 2>&1; RC_PATCHED=$?
PYTHONPATH="$WT" timeout 1200 /venv/bin/python -m pytest -q -p no:cacheprovider --timeout=900 -q >"$D/suite.log" 2>&1; RC_SUITE=$?
SUMMARY="$(tail -1 "$D/suite.log")"
cd / && git -C /repo worktree remove --force "$WT"
printf '{"demo_rc_pristine": %s, "demo_rc_patched": %s, "suite_rc_patched": %s, "suite_summary": "%s"}\n' "$RC_PRISTINE" "$RC_PATCHED" "$RC_SUITE" "$SUMMARY" > "$D/confirm.json"
cat "$D/confirm.json"
