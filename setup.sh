#!/bin/sh
# Builds /verif/.venv offline: overlay on /venv (python 3.12 with the repository's deps) + crosshair-tool from the wheelhouse.
# Idempotent; every check calls it first.
set -e
HERE="$(cd "$(dirname "$0")" && pwd)"
VENV="$HERE/.venv"
LOCK="$HERE/.venv.lock"
exec 9>"$LOCK"
flock 9
if [ -x "$VENV/bin/python" ] && "$VENV/bin/python" -c "import crosshair, z3" >/dev/null 2>&1; then
  exit 0
fi
rm -rf "$VENV"
/venv/bin/python -m venv "$VENV"
SP="$("$VENV/bin/python" -c 'import sysconfig; print(sysconfig.get_paths()["purelib"])')"
printf '%s\n' "import site; site.addsitedir('/venv/lib/python3.12/site-packages')" > "$SP/zz_overlay.pth"
PIP_NO_INDEX=1 "$VENV/bin/pip" install -q --no-index --find-links /opt/veriftools/wheels crosshair-tool >/dev/null
"$VENV/bin/python" -c "import crosshair, z3; print('verif venv ok: crosshair', crosshair.__version__, 'z3', z3.get_version_string())"
