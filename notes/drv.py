import sys, time, collections, importlib
from crosshair.core_and_libs import analyze_function, run_checkables, MessageType
from crosshair.options import AnalysisOptionSet
from crosshair.options import AnalysisKind

def run(fn, timeout=60.0, per_path=None):
    stats = collections.Counter()
    opts = AnalysisOptionSet(per_condition_timeout=timeout, report_all=True,
        analysis_kind=[AnalysisKind.PEP316], max_uninteresting_iterations=sys.maxsize, stats=stats,
        per_path_timeout=per_path)
    t0 = time.time()
    msgs = run_checkables(analyze_function(fn, opts))
    dt = time.time() - t0
    for m in msgs:
        print(f"  [{m.state.name}] {m.message[:300]}")
    print(f"  paths={stats.get('num_paths')} wall={dt:.1f}s stats={dict(stats)}")
    return msgs

if __name__ == "__main__":
    mod = importlib.import_module(sys.argv[1])
    names = sys.argv[2].split(",")
    to = float(sys.argv[3]) if len(sys.argv) > 3 else 60.0
    for n in names:
        print("==", n)
        run(getattr(mod, n), to)
