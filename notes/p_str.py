from typing import List, Dict, Union, Optional, Any
import clematis.engine.policy.sanitize as S
from clematis.engine.policy.json_schemas import PLANNER_V1
from clematis.engine.stages.t3.reflect import _truncate_tokens
from clematis.engine.stages.t3.dialogue import _truncate_to_tokens

def fences_total(s: str) -> bool:
    """
    pre: len(s) <= 8
    post: _
    """
    out, lang = S._strip_triple_fences(s)
    return isinstance(out, str) and (lang is None or isinstance(lang, str))

def refl_trunc(s: str, n: int) -> bool:
    """
    pre: len(s) <= 5
    post: _
    """
    out = _truncate_tokens(s, n)
    return len(out.split()) <= max(n, 0)

def dlg_trunc(s: str, n: int) -> bool:
    """
    pre: len(s) <= 5
    post: _
    """
    out, trunc, cnt = _truncate_to_tokens(s, n)
    return len(out.split()) <= max(n, 0) and cnt == len(out.split())

JV = Union[None, bool, int, str, List[Union[int, str, None]], Dict[str, Union[int, str, bool, None, List[Union[str, int]]]]]

def validate_obj(obj: JV) -> bool:
    """
    post: _
    """
    old = S.json
    class FJ:
        @staticmethod
        def loads(t): return obj
    S.json = FJ
    try:
        ok, val = S.parse_and_validate("{}", PLANNER_V1)
    finally:
        S.json = old
    if not ok:
        return isinstance(val, str)
    return (isinstance(val, dict) and len(val["plan"]) <= 16 and all(isinstance(x, str) and 0 < len(x) <= 200 for x in val["plan"])
            and 0 < len(val["rationale"]) <= 2000 and isinstance(val["reflection"], bool))
