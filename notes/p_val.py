import copy, math
from typing import Union, Optional
from configs.validate import validate_config, validate_config_api
from clematis.errors import ConfigError

Leaf = Union[int, float, bool, None, str]

def leaf_t4_l2(v: Union[int, float, bool, None]) -> bool:
    """
    post: _
    """
    cfg = {"t4": {"delta_norm_cap_l2": v}}
    snap = copy.deepcopy(cfg)
    try:
        out = validate_config(cfg)
    except ConfigError:
        return cfg == snap or (v != v)
    x = out["t4"]["delta_norm_cap_l2"]
    return (cfg == snap or (v != v)) and isinstance(x, float) and x > 0

def leaf_k(v: Union[int, float, bool, None]) -> bool:
    """
    post: _
    """
    cfg = {"t2": {"k_retrieval": v}}
    try:
        out = validate_config(cfg)
    except ConfigError:
        return True
    x = out["t2"]["k_retrieval"]
    return isinstance(x, int) and x >= 1

def key_any(k: Union[int, str]) -> bool:
    """
    pre: not isinstance(k, str) or len(k) <= 3
    post: _
    """
    cfg = {"t1": {k: 1}}
    try:
        validate_config(cfg)
    except ConfigError:
        return True
    return True

def leaf_k_int(v: int) -> bool:
    """
    post: _
    """
    cfg = {"t2": {"k_retrieval": v}}
    try:
        out = validate_config(cfg)
    except ConfigError:
        return True
    x = out["t2"]["k_retrieval"]
    return isinstance(x, int) and x >= 1

def leaf_k_float(v: float) -> bool:
    """
    post: _
    """
    cfg = {"t2": {"k_retrieval": v}}
    try:
        out = validate_config(cfg)
    except ConfigError:
        return True
    x = out["t2"]["k_retrieval"]
    return isinstance(x, int) and x >= 1
