import math
from types import SimpleNamespace as NS
from clematis.engine.types import Config
from clematis.engine.stages import t1 as t1m
from clematis.graph.store import InMemoryGraphStore, Node, Edge

def _world(w1, w2):
    store = InMemoryGraphStore()
    store.upsert_nodes("g", [Node(id="a", label="alpha"), Node(id="b", label="beta"), Node(id="c", label="gamma")])
    store.upsert_edges("g", [Edge(id="e1", src="a", dst="b", weight=w1, rel="supports"),
                             Edge(id="e2", src="b", dst="c", weight=w2, rel="associates")])
    return {"store": store, "active_graphs": ["g"]}

def _cfg(cache_on):
    cfg = Config()
    cfg.t1["cache"] = {"enabled": cache_on, "max_entries": 8, "ttl_s": 300}
    return cfg

def t1_budget(w1: float, w2: float, qb: int, radius: int) -> bool:
    """
    pre: math.isfinite(w1) and math.isfinite(w2) and abs(w1) <= 4 and abs(w2) <= 4
    pre: 0 <= qb <= 5 and 0 <= radius <= 3
    post: _
    """
    t1m._T1_CACHE = None; t1m._T1_CACHE_CFG = None
    cfg = _cfg(False)
    cfg.t1["queue_budget"] = qb
    cfg.t1["radius_cap"] = radius
    st = _world(w1, w2)
    r = t1m.t1_propagate(NS(cfg=cfg), st, "alpha")
    ids = [d["id"] for d in r.graph_deltas]
    if ids != sorted(set(ids)): return False
    if r.metrics["pops"] > qb: return False
    if "c" in ids and radius < 2: return False
    if "b" in ids and radius < 1: return False
    return True

def t1_cache_edit(w1: float, w1b: float) -> bool:
    """
    pre: math.isfinite(w1) and math.isfinite(w1b) and abs(w1) <= 4 and abs(w1b) <= 4
    post: _
    """
    t1m._T1_CACHE = None; t1m._T1_CACHE_CFG = None
    cfg = _cfg(True)
    st = _world(w1, 0.5)
    ctx = NS(cfg=cfg)
    t1m.t1_propagate(ctx, st, "alpha")
    st["store"].upsert_edges("g", [Edge(id="e1", src="a", dst="b", weight=w1b, rel="supports")])
    cached = t1m.t1_propagate(ctx, st, "alpha")
    t1m._T1_CACHE = None; t1m._T1_CACHE_CFG = None
    fresh = t1m.t1_propagate(NS(cfg=_cfg(False)), st, "alpha")
    return cached.graph_deltas == fresh.graph_deltas
