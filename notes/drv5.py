import sys, time, math, inspect
from inspect import Signature
import z3
import crosshair.core_and_libs
from crosshair.register_contract import REGISTERED_CONTRACTS, register_contract
import crosshair.libimpl.builtinslib as bl
from crosshair.core import _PATCH_REGISTRATIONS, proxy_for_type
from crosshair.statespace import context_statespace
from crosshair.tracers import NoTracing, ResumedTracing

MODE = sys.argv[4] if len(sys.argv) > 4 else "real"
bl._PYTYPE_TO_WRAPPER_TYPE[float] = ((bl.RealBasedSymbolicFloat if MODE == "real" else bl.PreciseIeeeSymbolicFloat, 1.0),)

# --- symbolic int(float): re-create _int from its own source with one extra clause
import inspect, textwrap
_src = inspect.getsource(bl._int)
_src = _src.replace("def _int(", "def _int2(", 1)
_src = _src.replace("        elif isinstance(val, CrossHairValue):", "        elif isinstance(val, SymbolicFloat) and base is _MISSING:\n            with ResumedTracing():\n                return val.__int__()\n        elif isinstance(val, CrossHairValue):", 1)
_ns = dict(bl.__dict__)
exec(_src, _ns)
_PATCH_REGISTRATIONS[int] = _ns["_int2"]
# --- symbolic sqrt for real-based floats
_n = [0]
def sym_sqrt(x):
    with NoTracing():
        is_sf = isinstance(x, bl.RealBasedSymbolicFloat)
    if not is_sf:
        return math.sqrt(x)
    with NoTracing():
        space = context_statespace()
        r = z3.Real(f"sqrt_{space.uniq()}")
        space.add(z3.And(r >= 0, r * r == x.var))
        return bl.RealBasedSymbolicFloat(r)

# --- symbolic perf_counter
def _reg_perf():
    register_contract(time.perf_counter, post=lambda __return__: __return__ >= 0.0 and math.isfinite(__return__),
                      sig=Signature(parameters=[], return_annotation=float))
for f in (time.time, time.time_ns, time.monotonic, time.monotonic_ns, time.process_time, time.process_time_ns):
    REGISTERED_CONTRACTS.pop(f, None)

import datetime as _dtm
for _k in list(_PATCH_REGISTRATIONS.keys()):
    if _k in (_dtm.timedelta, _dtm.datetime, _dtm.date, _dtm.time, _dtm.timezone, _dtm.tzinfo) or getattr(_k, "__module__", "") == "datetime" or getattr(getattr(_k, "__self__", None), "__module__", "") == "datetime":
        _PATCH_REGISTRATIONS.pop(_k)
import drv, importlib
mod = importlib.import_module(sys.argv[1])
if getattr(mod, "WANT_PERF", False): _reg_perf()
if hasattr(mod, "install"): mod.install(sym_sqrt)
for n in sys.argv[2].split(","):
    print("==", n)
    drv.run(getattr(mod, n), float(sys.argv[3]))
