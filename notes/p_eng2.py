import math
def int_trunc(v: float) -> bool:
    """
    pre: math.isfinite(v) and abs(v) < 1e6
    post: _
    """
    i = int(v)
    return isinstance(i, int) and abs(i) <= abs(v) and abs(v) - abs(i) < 1

def int_bad(v: float) -> bool:
    """
    pre: math.isfinite(v) and abs(v) < 1e6
    post: _
    """
    return int(v) != 7
