import math
def assoc(a: float, b: float) -> bool:
    """
    pre: math.isfinite(a) and math.isfinite(b) and abs(a) < 1e10 and abs(b) < 1e10
    post: _
    """
    return (a + b) - b == a

def clampfp(x: float, lo: float, hi: float) -> bool:
    """
    pre: lo <= hi
    post: _
    """
    y = hi if x > hi else lo if x < lo else x
    return lo <= y <= hi
