from clematis.engine.util.lru_bytes import LRUBytes
KEYS = ["k0", "k1", "k2"]

def _mk(me, mb, n, costs):
    c = LRUBytes(me, mb)
    for i in range(n):
        c._q.append(KEYS[i]); c._map[KEYS[i]] = (i, costs[i]); c._bytes += costs[i]
    return c

def _inv(c) -> bool:
    keys = list(c._q)
    if len(keys) != len(set(keys)): return False
    if set(keys) != set(c._map.keys()): return False
    tot = 0
    for k in keys:
        if c._map[k][1] < 0: return False
        tot = tot + c._map[k][1]
    if tot != c._bytes: return False
    if c.max_entries > 0 and len(c._map) > c.max_entries: return False
    if c.max_bytes > 0 and c._bytes > c.max_bytes: return False
    return True

def put_step(me: int, mb: int, n: int, c0: int, c1: int, c2: int, ki: int, cost: int) -> bool:
    """
    pre: me >= 0 and mb >= 0 and (me > 0 or mb > 0)
    pre: 0 <= n <= 3 and 0 <= ki <= 3
    pre: c0 >= 0 and c1 >= 0 and c2 >= 0
    pre: _inv(_mk(me, mb, n, [c0, c1, c2]))
    post: _
    """
    c = _mk(me, mb, n, [c0, c1, c2])
    before = list(c._q)
    key = KEYS[ki] if ki < 3 else "new"
    evn, evb = c.put(key, 99, cost)
    if not _inv(c): return False
    after = list(c._q)
    # survivors keep relative order; evicted are a prefix of `before` minus key (strict LRU-first)
    rest = [k for k in before if k != key]
    surv = [k for k in after if k != key]
    if surv != rest[len(rest) - len(surv):]: return False
    if evn != len(rest) - len(surv): return False
    # accepted puts land at MRU
    if key in c._map and after[-1] != key: return False
    return True
