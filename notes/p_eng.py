import math, time
from types import SimpleNamespace as NS
import clematis.engine.stages.t4 as T4
from clematis.engine.types import ProposedDelta, Plan
from configs.validate import validate_config
from clematis.errors import ConfigError
WANT_PERF = True
def install(sym_sqrt):
    T4.sqrt = sym_sqrt

def l2_env(d0: float, d1: float, cap: float) -> bool:
    """
    pre: cap > 0 and abs(d0) <= 100 and abs(d1) <= 100 and cap <= 100
    post: _
    """
    ds = [ProposedDelta("node", "a", "weight", d0, None, 0), ProposedDelta("node", "b", "weight", d1, None, 1)]
    out, scale = T4._l2_scale(ds, cap)
    s = out[0].delta * out[0].delta + out[1].delta * out[1].delta
    uniform = out[0].delta * d1 == out[1].delta * d0
    return s <= cap * cap * (1 + 1e-9) and uniform and 0 < scale <= 1.0

def leaf_k_float(v: float) -> bool:
    """
    post: _
    """
    cfg = {"t2": {"k_retrieval": v}}
    try:
        out = validate_config(cfg)
    except ConfigError:
        return True
    x = out["t2"]["k_retrieval"]
    return isinstance(x, int) and x >= 1

def perf_sym(x: int) -> bool:
    """
    post: _
    """
    t0 = time.perf_counter()
    t1 = time.perf_counter()
    ms = round((t1 - t0) * 1000.0, 3)
    return ms < 5.0
