import sys, time, collections
import crosshair.core_and_libs
from crosshair.util import set_debug
import crosshair.libimpl.builtinslib as bl
bl._PYTYPE_TO_WRAPPER_TYPE[float] = ((bl.PreciseIeeeSymbolicFloat, 1.0),)
set_debug(True)
import drv, importlib
mod = importlib.import_module(sys.argv[1])
drv.run(getattr(mod, sys.argv[2]), float(sys.argv[3]))
