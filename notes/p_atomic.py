import errno, io, os, stat as statmod
from pathlib import Path
import clematis.io.atomic as A

class Killed(BaseException): pass

class FS:
    """Tiny in-memory POSIX-like model: files: path -> bytes; every mutating/IO call is a numbered step."""
    def __init__(self, files, fail_at, fail_kind, kill):
        self.files = dict(files); self.step = 0; self.fail_at = fail_at; self.fail_kind = fail_kind
        self.kill = kill; self.dead = False; self.tmpn = 0; self.log = []
    def tick(self, name):
        if self.dead: raise Killed()
        i = self.step; self.step += 1; self.log.append(name)
        if i == self.fail_at:
            if self.kill:
                self.dead = True; raise Killed()
            if self.fail_kind == 0: raise OSError(errno.EIO, "EIO")
            if self.fail_kind == 1: raise OSError(errno.ENOSPC, "ENOSPC")
            if self.fail_kind == 2: raise PermissionError(errno.EACCES, "EACCES")
            raise OSError(errno.EBUSY, "EBUSY")

class FakeFile:
    def __init__(self, fs, path, mode):
        self.fs, self.path, self.mode = fs, path, mode
        if "w" in mode:
            fs.tick("open_w"); fs.files[path] = b""
        else:
            fs.tick("open_r")
            if path not in fs.files: raise FileNotFoundError(path)
    def write(self, data):
        self.fs.tick("write")
        # torn write model: a kill *during* write leaves a prefix -- modelled by write being 2 steps
        half = len(data) // 2
        self.fs.files[self.path] = self.fs.files[self.path] + data[:half]
        self.fs.tick("write2")
        self.fs.files[self.path] = self.fs.files[self.path] + data[half:]
        return len(data)
    def flush(self): self.fs.tick("flush")
    def fileno(self): return 7
    def __enter__(self): return self
    def __exit__(self, *a):
        return False

def _install(fs):
    saved = {}
    class FakeTemp:
        def NamedTemporaryFile(self, prefix="", dir=".", delete=False):
            fs.tick("mktemp"); fs.tmpn += 1
            name = os.path.join(dir, prefix + "tmp%d" % fs.tmpn); fs.files[name] = b""
            class TF:
                def __enter__(s): return s
                def __exit__(s, *a): return False
            tf = TF(); tf.name = name; return tf
    class FakeOS:
        O_RDONLY = 0
        def replace(self, a, b):
            fs.tick("replace")
            if a not in fs.files: raise FileNotFoundError(a)
            fs.files[b] = fs.files.pop(a)
        def fsync(self, fd): fs.tick("fsync")
        def chmod(self, p, m): fs.tick("chmod")
        def open(self, p, fl): fs.tick("diropen"); return 9
        def close(self, fd): pass
    class FakeTime:
        def sleep(self, s): pass
    class P(type(Path())):
        pass
    saved = dict(os=A.os, tempfile=A.tempfile, time=A.time, open=getattr(A, "open", None), Path=A.Path)
    A.os = FakeOS(); A.tempfile = FakeTemp(); A.time = FakeTime(); A.open = lambda p, mode="r", buffering=-1: FakeFile(fs, str(p), mode)
    class FP:
        def __init__(self, p): self.p = str(p)
        def __str__(self): return self.p
        def __fspath__(self): return self.p
        @property
        def parent(self): return FP(os.path.dirname(self.p))
        @property
        def name(self): return os.path.basename(self.p)
        def mkdir(self, parents=False, exist_ok=False): pass
        def exists(self):
            fs.tick("exists"); return self.p in fs.files
        def unlink(self):
            fs.tick("unlink")
            if self.p not in fs.files: raise FileNotFoundError(self.p)
            del fs.files[self.p]
        def stat(self):
            fs.tick("stat")
            if self.p not in fs.files: raise FileNotFoundError(self.p)
            class S: st_mode = 0o644
            return S()
    A.Path = FP
    return saved

def _restore(saved):
    A.os = saved["os"]; A.tempfile = saved["tempfile"]; A.time = saved["time"]; A.Path = saved["Path"]
    if saved["open"] is None:
        del A.open
    else:
        A.open = saved["open"]

def aon(exists: bool, fail_at: int, kind: int, kill: bool) -> bool:
    """
    pre: -1 <= fail_at <= 14 and 0 <= kind <= 3
    post: _
    """
    old, new = b"OLDOLD", b"NEWNEW!!"
    fs = FS({"/d/f.json": old} if exists else {}, fail_at, kind, kill)
    saved = _install(fs)
    raised = False
    try:
        try:
            A.atomic_write_bytes("/d/f.json", new)
        except Killed:
            raised = True
        except Exception:
            raised = True
    finally:
        _restore(saved)
    cur = fs.files.get("/d/f.json")
    ok = (cur == new) or (cur == old if exists else cur is None)
    if not ok: return False
    if not raised and cur != new: return False
    # a failed (non-kill) write leaves no temp behind
    if raised and not kill and any(k != "/d/f.json" for k in fs.files): return False
    return True
