from typing import List
from clematis.engine.scheduler import next_turn, on_yield, init_scheduler_state

class Ctx:
    def __init__(self): self.t = 0
    def now_ms(self): return self.t

def _run(c, l, now, mct, aging, fair, rotate, dts, n):
    names = ["a", "b", "c"][:n]
    sched = {"queue": list(names), "last_ran_ms": dict(zip(names, l)), "consec_turns": dict(zip(names, c))}
    ctx = Ctx(); ctx.t = now
    fairness = {"max_consecutive_turns": mct, "aging_ms": aging}
    policy = "fair_queue" if fair else "round_robin"
    picks = []
    for dt in dts:
        agent, _, reason = next_turn(ctx, sched, policy, fairness)
        picks.append(agent)
        ctx.t = ctx.t + dt
        on_yield(ctx, sched, agent, {}, "X", fairness, reset=(reason == "RESET_CONSEC"))
        if rotate and not fair:
            q = sched["queue"]; q.remove(agent); q.append(agent)
    return picks

def starve3(c0: int, c1: int, c2: int, l0: int, l1: int, l2: int, now: int, aging: int, fair: bool, rotate: bool,
            d0: int, d1: int, d2: int, d3: int, d4: int, d5: int) -> bool:
    """
    pre: 0 <= c0 <= 1 and 0 <= c1 <= 1 and 0 <= c2 <= 1
    pre: aging >= 0
    pre: d0 >= 0 and d1 >= 0 and d2 >= 0 and d3 >= 0 and d4 >= 0 and d5 >= 0
    post: _
    """
    # mct = 1, n = 3: bound = 2*(3-1)*1+1 = 5 selections between two own turns -> in any window of 6 consecutive selections every agent appears
    picks = _run([c0, c1, c2], [l0, l1, l2], now, 1, aging, fair, rotate, [d0, d1, d2, d3, d4, d5], 3)
    return ("a" in picks) and ("b" in picks) and ("c" in picks)

def starve3_rr(c0: int, c1: int, c2: int, rotate: bool) -> bool:
    """
    pre: 0 <= c0 <= 1 and 0 <= c1 <= 1 and 0 <= c2 <= 1
    post: _
    """
    picks = _run([c0, c1, c2], [0, 0, 0], 0, 1, 200, False, rotate, [1]*6, 3)
    return ("a" in picks) and ("b" in picks) and ("c" in picks)

def starve3_fair(c0: int, c1: int, c2: int, l0: int, l1: int, l2: int, now: int,
            d0: int, d1: int, d2: int, d3: int, d4: int, d5: int) -> bool:
    """
    pre: 0 <= c0 <= 1 and 0 <= c1 <= 1 and 0 <= c2 <= 1
    pre: d0 >= 0 and d1 >= 0 and d2 >= 0 and d3 >= 0 and d4 >= 0 and d5 >= 0
    post: _
    """
    picks = _run([c0, c1, c2], [l0, l1, l2], now, 1, 200, True, False, [d0, d1, d2, d3, d4, d5], 3)
    return ("a" in picks) and ("b" in picks) and ("c" in picks)
