import math
from types import SimpleNamespace as NS
import numpy as _np
from clematis.engine.types import Config
import clematis.engine.stages.t2.core as T2C
import clematis.engine.stages.t2.cache as T2K
import clematis.memory.index as IDX
from clematis.memory.index import InMemoryIndex
from clematis.graph.store import InMemoryGraphStore, Node

class NPShim:
    def __getattr__(self, n): return getattr(_np, n)
    @staticmethod
    def mean(xs): 
        xs = list(xs); return sum(xs) / len(xs)
    @staticmethod
    def max(xs):
        m = None
        for x in xs:
            if m is None or x > m: m = x
        return m

OWN = ["A", "B", "world"]

def _setup(scores, owners):
    T2K._T2_CACHE = None; T2K._T2_CACHE_CFG = None
    table = {}
    idx = InMemoryIndex()
    for i in range(3):
        vec = [float(i + 1), 0.0, 0.0]
        table[i + 1] = scores[i]
        idx.add({"id": "e%d" % (i + 1), "owner": owners[i], "text": "alpha t%d" % i, "ts": "2025-01-01T00:00:00Z", "vec_full": vec})
    def cos(a, b):
        return table.get(int(b[0]), 0.0)
    IDX._cosine = cos
    T2C.np = NPShim()
    store = InMemoryGraphStore(); store.upsert_nodes("g", [Node(id="a", label="alpha")])
    return {"store": store, "active_graphs": ["g"], "mem_index": idx, "mem_backend": "inmemory"}

def _cfg(cache_on, scope, k):
    cfg = Config()
    cfg.t2["cache"] = {"enabled": cache_on, "max_entries": 8, "ttl_s": 300}
    cfg.t2["owner_scope"] = scope
    cfg.t2["k_retrieval"] = k
    cfg.t2["sim_threshold"] = 0.0
    cfg.t2["tiers"] = ["exact_semantic"]
    return cfg

def t2_scope(s1: float, s2: float, s3: float, o1: int, o2: int, o3: int, k: int) -> bool:
    """
    pre: 0 <= s1 <= 1 and 0 <= s2 <= 1 and 0 <= s3 <= 1
    pre: 0 <= o1 <= 2 and 0 <= o2 <= 2 and 0 <= o3 <= 2 and 1 <= k <= 3
    post: _
    """
    owners = [OWN[o1], OWN[o2], OWN[o3]]
    st = _setup([s1, s2, s3], owners)
    ctx = NS(cfg=_cfg(False, "agent", k), agent_id="A", now="2025-01-02T00:00:00Z")
    r = T2C.t2_semantic(ctx, st, "hello", NS(graph_deltas=[]))
    ids = [x.id for x in r.retrieved]
    if len(ids) > k or len(set(ids)) != len(ids): return False
    own = {"e1": owners[0], "e2": owners[1], "e3": owners[2]}
    return all(own[i] == "A" for i in ids)

def t2_cache_agents(s1: float, s2: float, o1: int, o2: int, second_b: bool) -> bool:
    """
    pre: 0 <= s1 <= 1 and 0 <= s2 <= 1 and 0 <= o1 <= 1 and 0 <= o2 <= 1
    post: _
    """
    owners = [OWN[o1], OWN[o2], "world"]
    st = _setup([s1, s2, 0.5], owners)
    t1 = NS(graph_deltas=[])
    T2C.t2_semantic(NS(cfg=_cfg(True, "agent", 3), agent_id="A", now="2025-01-02T00:00:00Z"), st, "hello", t1)
    ag2 = "B" if second_b else "A"
    cached = T2C.t2_semantic(NS(cfg=_cfg(True, "agent", 3), agent_id=ag2, now="2025-01-02T00:00:00Z"), st, "hello", t1)
    T2K._T2_CACHE = None; T2K._T2_CACHE_CFG = None
    fresh = T2C.t2_semantic(NS(cfg=_cfg(False, "agent", 3), agent_id=ag2, now="2025-01-02T00:00:00Z"), st, "hello", t1)
    return [x.id for x in cached.retrieved] == [x.id for x in fresh.retrieved]
