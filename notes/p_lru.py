from typing import List, Tuple
from clematis.engine.util.lru_bytes import LRUBytes

def _check(c: LRUBytes) -> bool:
    keys = list(c._q)
    if len(keys) != len(set(keys)): return False
    if set(keys) != set(c._map.keys()): return False
    tot = 0
    for k in keys: tot = tot + c._map[k][1]
    if tot != c._bytes: return False
    if c.max_entries > 0 and len(c._map) > c.max_entries: return False
    if c.max_bytes > 0 and c._bytes > c.max_bytes: return False
    return True

def _apply(c, model, op, key, cost):
    # model: list of (key, cost) LRU->MRU
    if op == 0:
        v = c.get(key)
        hit = [i for i, (k, _) in enumerate(model) if k == key]
        if hit:
            kc = model.pop(hit[0]); model.append(kc)
            if v != key * 10: return False
        else:
            if v is not None: return False
        return True
    else:
        ev = c.put(key, key * 10, cost)
        return True

def seq3(me: int, mb: int, o0: int, k0: int, c0: int, o1: int, k1: int, c1: int, o2: int, k2: int, c2: int) -> bool:
    """
    pre: me >= 0 and mb >= 0
    pre: 0 <= o0 <= 1 and 0 <= o1 <= 1 and 0 <= o2 <= 1
    pre: 0 <= k0 <= 2 and 0 <= k1 <= 2 and 0 <= k2 <= 2
    pre: c0 >= 0 and c1 >= 0 and c2 >= 0
    post: _
    """
    c = LRUBytes(me, mb)
    model = []
    for (o, k, cost) in ((o0, k0, c0), (o1, k1, c1), (o2, k2, c2)):
        if o == 0:
            c.get(k)
        else:
            c.put(k, k * 10, cost)
        if not _check(c):
            return False
    return True
