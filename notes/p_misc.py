import math
from types import SimpleNamespace as NS
from typing import List, Dict, Union, Optional
import clematis.engine.apply as AP
from clematis.engine.types import ProposedDelta
from clematis.engine.util.io_logging import LogStager, LogKey
from clematis.engine.orchestrator.core import _should_yield
from clematis.engine import gel as G

class Store:
    def __init__(self, batch_fail, fail_mask):
        self.calls = []; self.batch_fail = batch_fail; self.fail_mask = fail_mask; self.n = 0
    def apply_deltas(self, gid, deltas):
        self.calls.append((gid, list(deltas)))
        first = (len(self.calls) == 1)
        if first and self.batch_fail: raise RuntimeError("batch")
        if not first:
            i = len(self.calls) - 2
            if (self.fail_mask >> i) & 1: raise ValueError("one")
        return {"edits": len(deltas), "clamps": 0}

def apply_once(turn: int, every: int, ver: int, nd: int, batch_fail: bool, mask: int, bust: bool) -> bool:
    """
    pre: turn >= 0 and every >= 1 and ver >= 0 and 0 <= nd <= 3 and 0 <= mask <= 7
    post: _
    """
    snaps = []
    old = AP.write_snapshot
    AP.write_snapshot = lambda ctx, state, v, applied=0, deltas=None: (snaps.append((v, applied)) or "P")
    try:
        deltas = [ProposedDelta("node", "n%d" % i, "weight", 0.1, None, i) for i in range(nd)]
        st = Store(batch_fail, mask)
        inv = []
        cm = NS(invalidate_namespace=lambda ns: (inv.append(ns) or 2))
        state = {"store": st, "version_etag": str(ver), "_cache_mgr": cm}
        t4cfg = {"snapshot_every_n_turns": every, "cache_bust_mode": "on-apply" if bust else "none", "cache": {"namespaces": ["t2:semantic"]}}
        ctx = NS(turn_id=turn, agent_id="A", config=NS(t4=t4cfg))
        res = AP.apply_changes(ctx, state, NS(approved_deltas=deltas))
    finally:
        AP.write_snapshot = old
    if state["version_etag"] != str(ver + 1) or res.version_etag != str(ver + 1): return False
    if (len(snaps) == 1) != (turn % every == 0) or len(snaps) > 1: return False
    if st.calls[0] != ("g:surface", deltas): return False
    if batch_fail:
        if [c[1] for c in st.calls[1:]] != [[d] for d in deltas]: return False
    else:
        if len(st.calls) != 1: return False
    if inv != (["t2:semantic"] if bust else []): return False
    return True

def stager_order(limit: int, n: int, s0: int, s1: int, s2: int, s3: int) -> bool:
    """
    pre: limit >= 1 and 1 <= n <= 4
    pre: 0 <= s0 <= 2 and 0 <= s1 <= 2 and 0 <= s2 <= 2 and 0 <= s3 <= 2
    post: _
    """
    files = ["t1.jsonl", "t2.jsonl", "apply.jsonl"]
    st = LogStager(byte_limit=limit)
    out = []
    arrivals = []
    for i, s in enumerate([s0, s1, s2, s3][:n]):
        f = files[s]
        key = LogKey(turn_id=1, stage_ord={"t1.jsonl":1,"t2.jsonl":2,"apply.jsonl":6}[f], slice_idx=0, seq=st.next_seq())
        payload = {"i": i}
        arrivals.append((f, i))
        try:
            st.stage(f, key, payload)
        except RuntimeError:
            for r in st.drain_sorted(): out.append((r.file_path, r.payload["i"]))
            st.stage(f, key, payload)
    for r in st.drain_sorted(): out.append((r.file_path, r.payload["i"]))
    for f in files:
        if [i for (ff, i) in out if ff == f] != [i for (ff, i) in arrivals if ff == f]: return False
    return len(out) == len(arrivals)

def yield_prec(ms: int, wall: Optional[int], q: int, bi: Optional[int], ci: Optional[int]) -> bool:
    """
    pre: ms >= 0 and q >= 1 and (wall is None or wall >= 1)
    post: _
    """
    budgets = {"quantum_ms": q}
    if wall is not None: budgets["wall_ms"] = wall
    if bi is not None: budgets["t1_iters"] = bi
    consumed = {"ms": ms}
    if ci is not None: consumed["t1_iters"] = ci
    r = _should_yield({"slice_idx": 1, "started_ms": 0, "budgets": budgets, "agent_id": "A"}, consumed)
    if wall is not None and ms >= wall: return r == "WALL_MS"
    if bi is not None and ci == bi: return r == "BUDGET_T1_ITERS"
    if ms >= q: return r == "QUANTUM_EXCEEDED"
    return r is None

def gel_obs(w0: float, alpha: float, lo: float, hi: float, s0: float, s1: float, thr: float, prop: bool) -> bool:
    """
    pre: lo < hi and lo <= w0 <= hi and alpha > 0 and 0 <= thr <= 1
    pre: -1 <= lo and hi <= 1 and alpha <= 1
    post: _
    """
    cfg = {"graph": {"enabled": True, "coactivation_threshold": thr, "observe_top_k": 4, "pair_cap_per_obs": 8,
                     "update": {"mode": "proportional" if prop else "additive", "alpha": alpha, "clamp_min": lo, "clamp_max": hi}}}
    state = {"graph": {"nodes": {}, "edges": {"x→y": {"id": "x→y", "src": "x", "dst": "y", "weight": w0, "rel": "coact", "attrs": {}}}, "meta": {}}}
    m = G.observe_retrieval(cfg, state, [("y", s1), ("x", s0)], turn=3)
    e = state["graph"]["edges"]
    if list(e.keys()) != ["x→y"]: return False
    w = e["x→y"]["weight"]
    return lo <= w <= hi and m["pairs_updated"] <= 1

def _apply(turn, every, ver, nd, batch_fail, mask, bust):
    snaps = []
    old = AP.write_snapshot
    AP.write_snapshot = lambda ctx, state, v, applied=0, deltas=None: (snaps.append((v, applied)) or "P")
    try:
        deltas = [ProposedDelta("node", "n%d" % i, "weight", 0.1, None, i) for i in range(nd)]
        st = Store(batch_fail, mask)
        inv = []
        cm = NS(invalidate_namespace=lambda ns: (inv.append(ns) or 2))
        state = {"store": st, "version_etag": ver, "_cache_mgr": cm}
        t4cfg = {"snapshot_every_n_turns": every, "cache_bust_mode": "on-apply" if bust else "none", "cache": {"namespaces": ["t2:semantic"]}}
        ctx = NS(turn_id=turn, agent_id="A", config=NS(t4=t4cfg))
        res = AP.apply_changes(ctx, state, NS(approved_deltas=deltas))
    finally:
        AP.write_snapshot = old
    return state, res, snaps, st, inv, deltas

def apply_cadence(turn: int, ei: int) -> bool:
    """
    pre: turn >= 0 and 0 <= ei <= 4
    post: _
    """
    every = [1, 2, 3, 7, 10][ei]
    state, res, snaps, st, inv, deltas = _apply(turn, every, "5", 2, False, 0, True)
    return (len(snaps) == 1) == (turn % every == 0) and len(snaps) <= 1 and state["version_etag"] == "6"

def apply_faults(nd: int, batch_fail: bool, mask: int, bust: bool) -> bool:
    """
    pre: 0 <= nd <= 3 and 0 <= mask <= 7
    post: _
    """
    state, res, snaps, st, inv, deltas = _apply(4, 2, "5", nd, batch_fail, mask, bust)
    if state["version_etag"] != "6": return False
    if st.calls[0] != ("g:surface", deltas): return False
    if batch_fail:
        if [c[1] for c in st.calls[1:]] != [[d] for d in deltas]: return False
    else:
        if len(st.calls) != 1: return False
    return inv == (["t2:semantic"] if bust else []) and len(snaps) == 1
