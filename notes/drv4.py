import sys, time
from crosshair.register_contract import REGISTERED_CONTRACTS
import crosshair.core_and_libs
import crosshair.libimpl.builtinslib as bl
bl._PYTYPE_TO_WRAPPER_TYPE[float] = ((bl.RealBasedSymbolicFloat, 1.0),)
for f in (time.time, time.time_ns, time.monotonic, time.monotonic_ns, time.process_time, time.process_time_ns):
    REGISTERED_CONTRACTS.pop(f, None)
import drv, importlib
mod = importlib.import_module(sys.argv[1])
for n in sys.argv[2].split(","):
    print("==", n)
    drv.run(getattr(mod, n), float(sys.argv[3]))
