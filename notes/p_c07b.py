from typing import Dict, Union
from clematis.engine.util.snapshot_delta import compute_delta, apply_delta

def rt_flat(base: Dict[str, int], cur: Dict[str, int]) -> bool:
    """
    pre: len(base) <= 2 and len(cur) <= 2
    pre: all(0 < len(k) <= 3 for k in base) and all(0 < len(k) <= 3 for k in cur)
    post: _
    """
    return apply_delta(base, compute_delta(base, cur)) == cur

def rt_nodot(base: Dict[str, int], cur: Dict[str, int]) -> bool:
    """
    pre: len(base) <= 2 and len(cur) <= 2
    pre: all(0 < len(k) <= 3 and '.' not in k for k in base) and all(0 < len(k) <= 3 and '.' not in k for k in cur)
    post: _
    """
    return apply_delta(base, compute_delta(base, cur)) == cur
