from typing import List
from clematis.engine.scheduler import next_turn, on_yield, init_scheduler_state

class Ctx:
    def __init__(self): self.t = 0
    def now_ms(self): return self.t

def elig(c0: int, c1: int, c2: int, l0: int, l1: int, l2: int, now: int, mct: int, aging: int, fair: bool) -> bool:
    """
    pre: 0 <= c0 and 0 <= c1 and 0 <= c2
    pre: mct >= 1 and aging >= 0
    post: _
    """
    q = ["a", "b", "c"]
    sched = {"queue": q, "last_ran_ms": {"a": l0, "b": l1, "c": l2}, "consec_turns": {"a": c0, "b": c1, "c": c2}}
    ctx = Ctx(); ctx.t = now
    agent, _, reason = next_turn(ctx, sched, "fair_queue" if fair else "round_robin", {"max_consecutive_turns": mct, "aging_ms": aging})
    cons = sched["consec_turns"]
    all_sat = all(cons[a] >= mct for a in q)
    if all_sat:
        return agent == "a" and reason == "RESET_CONSEC"
    return agent in q and cons[agent] < mct and reason != "RESET_CONSEC"
