import time
from z3 import *
F = Float64(); rm = RNE()
def prove(name, hyp, concl, timeout=60000):
    s = Solver(); s.set("timeout", timeout)
    s.add(hyp, Not(concl))
    t=time.time(); r = s.check(); print(name, r, f"{time.time()-t:.1f}s")
    if str(r)=="sat": print(s.model())
d, f, cap, norm, lo, hi, w = FPs("d f cap norm lo hi w", F)
fin = lambda x: And(Not(fpIsNaN(x)), Not(fpIsInf(x)))
zero = FPVal(0.0, F); one = FPVal(1.0, F)
# L1: 0<=f<=1, d finite -> |d*f| <= |d|
prove("mul_shrinks", And(fin(d), fpGEQ(f, zero), fpLEQ(f, one)), fpLEQ(fpAbs(fpMul(rm, d, f)), fpAbs(d)))
# L2: 0 < cap < norm finite -> cap/norm <= 1 and >= 0
q = fpDiv(rm, cap, norm)
prove("div_le_one", And(fin(cap), fin(norm), fpGT(cap, zero), fpGT(norm, cap)), And(fpLEQ(q, one), fpGEQ(q, zero)))
# L3: clamp
y = If(fpGT(w, hi), hi, If(fpLT(w, lo), lo, w))
prove("clamp", And(fpLEQ(lo, hi), Not(fpIsNaN(w))), And(fpLEQ(lo, y), fpLEQ(y, hi)))
