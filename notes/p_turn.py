import os, tempfile, shutil
from types import SimpleNamespace as NS
from clematis.engine.types import Config
from clematis.engine.orchestrator import core as ocore
from clematis.engine.orchestrator import Orchestrator
from clematis.graph.store import InMemoryGraphStore, Node, Edge
import clematis.engine.apply as applymod

_TMP = tempfile.mkdtemp(prefix="probe_turn_")
os.environ["CLEMATIS_LOG_DIR"] = os.path.join(_TMP, "logs")

def _world():
    store = InMemoryGraphStore()
    store.upsert_nodes("g:surface", [Node(id="n:hello", label="hello"), Node(id="n:world", label="world")])
    store.upsert_edges("g:surface", [Edge(id="e1", src="n:hello", dst="n:world", weight=0.8, rel="supports")])
    return {"store": store, "active_graphs": ["g:surface"], "version_etag": "5", "_boot_loaded": True}

def turn_cadence(turn: int, every: int, enabled: bool) -> bool:
    """
    pre: turn >= 0 and every >= 1
    post: _
    """
    import clematis.engine.stages.t1 as t1m, clematis.engine.stages.t2.cache as t2c
    t1m._T1_CACHE = None; t1m._T1_CACHE_CFG = None; t2c._T2_CACHE = None; t2c._T2_CACHE_CFG = None
    recs = []
    snaps = []
    cfg = Config()
    cfg.t4["snapshot_every_n_turns"] = every
    cfg.t4["enabled"] = enabled
    cfg.t4["snapshot_dir"] = os.path.join(_TMP, "snap")
    ctx = NS(turn_id=turn, agent_id="A", now="2025-01-01T00:00:00+00:00", cfg=cfg)
    state = _world()
    old_append = ocore._append_jsonl
    old_ws = applymod.write_snapshot
    ocore._append_jsonl = lambda name, rec: recs.append((name, rec))
    applymod.write_snapshot = lambda *a, **k: (snaps.append(a[2]) or "SNAP")
    try:
        res = Orchestrator().run_turn(ctx, state, "hello world")
    finally:
        ocore._append_jsonl = old_append
        applymod.write_snapshot = old_ws
    names = [n for n, _ in recs]
    if enabled:
        if state["version_etag"] != "6": return False
        if (len(snaps) == 1) != (turn % every == 0): return False
        if "apply.jsonl" not in names or "t4.jsonl" not in names: return False
    else:
        if state["version_etag"] != "5" or snaps: return False
        if "apply.jsonl" in names or "t4.jsonl" in names: return False
    return True
