from types import SimpleNamespace as NS
import math
from clematis.engine.stages.t4 import t4_filter, _novelty_clamp, _churn_cap, _l2_scale
from clematis.engine.types import ProposedDelta, Plan

def _mk(ids, ds):
    return [ProposedDelta(target_kind="node", target_id=i, attr="weight", delta=d, op_idx=None, idx=k) for k, (i, d) in enumerate(zip(ids, ds))]

def clamp2(d0: float, d1: float, cap: float) -> bool:
    """
    pre: not math.isnan(d0) and not math.isnan(d1) and not math.isnan(cap)
    post: _
    """
    out, n = _novelty_clamp(_mk(["a", "b"], [d0, d1]), cap)
    c = abs(cap)
    return all(abs(x.delta) <= c for x in out) and len(out) == 2

def envelope2(d0: float, d1: float, same: bool, nov: float, l2: float, churn: int) -> bool:
    """
    pre: not math.isnan(d0) and not math.isnan(d1)
    pre: 0 < nov <= 1.0 and l2 > 0 and churn >= 0
    pre: abs(d0) < 1e6 and abs(d1) < 1e6 and l2 < 1e6
    post: _
    """
    ids = ["a", "a" if same else "b"]
    ctx = NS(config=NS(t4={"novelty_cap_per_node": nov, "delta_norm_cap_l2": l2, "churn_cap_edges": churn, "cooldowns": {}}), turn_id=3)
    plan = Plan(version="t3-plan-v1", ops=[], deltas=_mk(ids, [d0, d1]))
    res = t4_filter(ctx, NS(), None, None, plan, "")
    ap = res.approved_deltas
    keys = [x.target_id for x in ap]
    ok = len(ap) <= churn and len(set(keys)) == len(keys) and keys == sorted(keys)
    ok = ok and all(abs(x.delta) <= nov for x in ap)
    return ok
