"""./check <Cnn> --tier quick|thorough [--replay file] [--jobs N] [--only fn,fn]

Runs every obligation of a property (one subprocess each, in parallel), replays
models natively, prints KNOWN-FINDING / VIOLATION lines and writes
evidence/<Cnn>.json.  Exit 0: held on everything explored; 1: violation;
2: harness/engine error (never a property verdict).
"""
from __future__ import annotations

import argparse
import concurrent.futures as cf
import glob
import importlib
import json
import os
import shutil
import subprocess
import sys
import tempfile
import time

HERE = os.path.dirname(os.path.dirname(os.path.abspath(__file__)))
PY = os.path.join(HERE, ".venv", "bin", "python")


def _modules_for(pid: str):
    pat = os.path.join(HERE, "harness", pid.lower() + "*.py")
    return sorted("harness." + os.path.basename(p)[:-3] for p in glob.glob(pat))


def _run(cmd, hard_timeout):
    t0 = time.time()
    try:
        p = subprocess.run(cmd, cwd=HERE, capture_output=True, text=True, timeout=hard_timeout)
        out = p.stdout.strip().splitlines()
        last = out[-1] if out else ""
        try:
            d = json.loads(last)
        except Exception:
            d = {"state": "ENGINE_ERROR", "detail": (p.stdout[-1500:] + "\n" + p.stderr[-1500:])}
        d["rc"] = p.returncode
    except subprocess.TimeoutExpired:
        d = {"state": "HARD_TIMEOUT", "detail": f"killed after {hard_timeout}s"}
    d["proc_wall_s"] = round(time.time() - t0, 2)
    return d


def _load_known():
    p = os.path.join(HERE, "known_findings.json")
    if not os.path.exists(p):
        return []
    with open(p) as f:
        return json.load(f).get("entries", [])


def main() -> int:
    ap = argparse.ArgumentParser()
    ap.add_argument("property")
    ap.add_argument("--tier", default=os.environ.get("VERIF_TIER", "quick"), choices=["quick", "thorough"])
    ap.add_argument("--replay", default=None)
    ap.add_argument("--jobs", type=int, default=int(os.environ.get("VERIF_JOBS", "0")) or min(16, os.cpu_count() or 4))
    ap.add_argument("--only", default="")
    ap.add_argument("--scale", type=float, default=float(os.environ.get("VERIF_SCALE", "1.0")))
    a = ap.parse_args()
    pid = a.property.upper()
    seed = int(os.environ.get("VERIF_SEED", "0") or 0)
    t_start = time.time()

    # ---- replay mode
    if a.replay:
        with open(a.replay) as f:
            rp = json.load(f)
        d = _run([PY, "-m", "engine.runob", rp["module"], rp["fn"], "--replay", json.dumps(rp["args"])], 600)
        print(f"replay {rp['module']}:{rp['fn']} -> {d.get('state')} {d.get('detail', '')[:300]}")
        if d.get("state") == "REPLAY_FAILS":
            print(f"VIOLATION property={pid} replay={a.replay}")
            return 1
        return 0 if d.get("state") == "REPLAY_HOLDS" else 2

    # ---- discover obligations (import harness modules in a scratch cwd; nothing may be written under /repo)
    scratch = tempfile.mkdtemp(prefix="verif_chk_")
    os.environ["CLEMATIS_LOG_DIR"] = os.path.join(scratch, "logs")
    os.environ["CLEMATIS_SNAPSHOT_DIR"] = os.path.join(scratch, "snaps")
    os.environ.setdefault("CI", "true")
    os.environ["VERIF_TIER"] = a.tier
    os.chdir(scratch)
    sys.path.insert(0, HERE)
    from engine import symx

    obs = []
    try:
        for mn in _modules_for(pid) + ["harness.selftest"]:
            mod = importlib.import_module(mn)
            for fn in symx.obligations_of(mod):
                obs.append((mn, fn, mod))
    finally:
        os.chdir(HERE)
        shutil.rmtree(scratch, ignore_errors=True)
    only = set(x for x in a.only.split(",") if x)
    known = [e for e in _load_known() if e.get("property") == pid]

    jobs = []
    rc = 0
    known_lines = []
    traces_validated = 0
    samples = []
    # ---- known findings: replay the recorded witness natively; exclusion only while it still reproduces
    excl = {}
    for e in known:
        if e.get("kind") != "finding":
            continue
        mn, fnn = e["obligation"].split(":")
        d = _run([PY, "-m", "engine.runob", mn, fnn, "--replay", json.dumps(e["witness"])], 600)
        traces_validated += 1
        if d.get("state") == "REPLAY_FAILS":
            known_lines.append(f"KNOWN-FINDING: property={pid} {e['what']} [obligation {e['obligation']} witness {json.dumps(e['witness'])}]")
            if e.get("exclude"):
                excl.setdefault((mn, fnn), []).append(e["exclude"])
        elif d.get("state") == "REPLAY_HOLDS":
            print(f"note: recorded finding no longer reproduces, exclusion dropped: {e['what']}")
        else:
            print(f"HARNESS-ERROR replaying known finding {e['obligation']}: {d.get('detail', '')[:500]}")
            rc = 2
    for l in known_lines:
        print(l)

    for mn, fn, mod in obs:
        meta = fn.__verif__
        if only and fn.__name__ not in only and mn != "harness.selftest":
            continue
        budget = meta["quick"] if a.tier == "quick" else meta["thorough"]
        if budget is None:
            continue
        budget = budget * a.scale
        # case split: one job (= one obligation) per value combination of the split arguments, each with `arg == value` assumed
        cases = [[]]
        for sk, svals in (meta.get("split") or {}).items():
            cases = [c + [(sk, v)] for c in cases for v in svals]
        for ci, case in enumerate(cases):
            cmd = [PY, "-m", "engine.runob", mn, fn.__name__, "--timeout", str(budget), "--witness-timeout", str(max(30.0, budget / 3))]
            if meta.get("witness_first_only") and ci > 0:
                # generated families of identical shape: the reachability witness is taken on the first member only
                cmd.append("--no-witness")
            for x in excl.get((mn, fn.__name__), []):
                cmd += ["--exclude", x]
            for sk, v in case:
                cmd += ["--bind", f"{sk}={v!r}"]
            label = fn.__name__ + ("[" + ",".join(f"{k}={v}" for k, v in case) + "]" if case else "")
            jobs.append({"module": mn, "fn": fn.__name__, "label": label, "meta": meta, "cmd": cmd, "hard": budget * 2.5 + 240, "kind": "main", "expect": meta.get("expect")})
        if a.tier == "thorough":
            for i, (descr, _) in enumerate(getattr(mod, "MUTANTS", {}).get(fn.__name__, [])):
                mcmd = [PY, "-m", "engine.runob", mn, fn.__name__, "--timeout", str(budget), "--mutant", str(i), "--no-witness"]
                jobs.append({"module": mn, "fn": fn.__name__, "label": fn.__name__, "meta": meta, "cmd": mcmd, "hard": budget * 2.5 + 240, "kind": "mutant", "descr": descr})

    if not any(j["module"] != "harness.selftest" for j in jobs):
        print(f"no obligations for {pid} in tier {a.tier}")
        return 2

    results = []
    with cf.ThreadPoolExecutor(max_workers=a.jobs) as ex:
        futs = {ex.submit(_run, j["cmd"], j["hard"]): j for j in jobs}
        for fut in cf.as_completed(futs):
            j = futs[fut]
            d = fut.result()
            j["res"] = d
            results.append(j)

    results.sort(key=lambda j: (j["module"], j["label"], j["kind"], j.get("descr", "")))
    n_ob = n_dis = 0
    inconclusive = []
    paths = queries = 0
    solver_time = 0.0
    violations = 0
    functions = set()
    ob_records = []
    weak = []
    for j in results:
        d = j["res"]
        st = d.get("state")
        tag = f"{j['module']}:{j['label']}"
        paths += int(d.get("paths", 0) or 0) + int((d.get("witness") or {}).get("paths", 0) or 0)
        queries += int(d.get("z3_queries", 0) or 0) + int((d.get("witness") or {}).get("z3_queries", 0) or 0)
        solver_time += float(d.get("z3_time_s", 0) or 0) + float((d.get("witness") or {}).get("z3_time_s", 0) or 0)
        traces_validated += int(d.get("replays", 0) or 0)
        if st in ("ENGINE_ERROR", "HARD_TIMEOUT", "NONDET", "UNPARSED_MODEL", "NO_CONDITIONS", "PRE_INVALID", "SYNTAX_ERR", "IMPORT_ERR") or d.get("rc") == 2:
            if st == "HARD_TIMEOUT" and j["kind"] != "selftest":
                inconclusive.append(tag + " (hard timeout)")
                print(f"  [{st}] {tag}")
                if j["kind"] == "main" and j["module"] != "harness.selftest":
                    n_ob += 1
                continue
            print(f"HARNESS-ERROR {tag}: {st}\n{d.get('detail', '')[:3000]}")
            rc = 2
            continue
        if j["kind"] == "mutant":
            killed = st == "REFUTED"
            print(f"  [mutant {'killed' if killed else 'SURVIVED:' + str(st)}] {tag} :: {j['descr']}")
            if not killed:
                weak.append(f"{tag} :: {j['descr']} ({st})")
            continue
        if j["module"] == "harness.selftest":
            exp = j["expect"]
            if st != exp:
                print(f"HARNESS-ERROR engine self-test {tag}: expected {exp}, got {st} {d.get('detail', '')[:500]}")
                rc = 2
            else:
                print(f"  [selftest ok:{st}] {tag}")
            continue
        n_ob += 1
        wit = d.get("witness") or {}
        rec = {"obligation": tag, "state": st, "paths": d.get("paths"), "z3_queries": d.get("z3_queries"), "z3_time_s": d.get("z3_time_s"),
               "cpu_s": d.get("cpu_s"), "float_model": j["meta"]["model"], "pre": d.get("pre"), "bounds": j["meta"]["bounds"],
               "stubs": j["meta"]["stubs"], "note": j["meta"]["note"], "bughunt": j["meta"]["bughunt"], "excluded_known": d.get("exclude"),
               "witness_state": wit.get("state"), "witness_native_holds": wit.get("native_holds")}
        for f in wit.get("functions_entered", []) or []:
            functions.add(f)
        if wit.get("model") is not None and len(samples) < 12:
            samples.append({"obligation": tag, "kind": "reachability witness (solver model, replayed natively)", "args": wit["model"]})
        line_extra = f"paths={d.get('paths')} z3={d.get('z3_queries')} cpu={d.get('cpu_s')}s"
        if st == "REFUTED":
            violations += 1
            os.makedirs(os.path.join(HERE, "replay"), exist_ok=True)
            rp = os.path.join(HERE, "replay", f"{pid}_{j['label'].replace('[', '_').replace(']', '').replace(',', '_').replace('=', '')}.json")
            with open(rp, "w") as f:
                json.dump({"property": pid, "module": j["module"], "fn": j["fn"], "args": d.get("model"), "detail": d.get("native_detail")}, f, indent=1)
            print(f"  [REFUTED] {tag} {line_extra}\n    model: {json.dumps(d.get('model'))}\n    native replay: {d.get('native_detail')}")
            print(f"VIOLATION property={pid} replay={rp}")
            samples.append({"obligation": tag, "kind": "counterexample (solver model, reproduced natively)", "args": d.get("model")})
            rc = max(rc, 1) if rc != 2 else 2
        elif st == "CONFIRMED":
            if wit and wit.get("state") != "POST_FAIL":
                inconclusive.append(tag + f" (no reachability witness: {wit.get('state')})")
                print(f"  [CONFIRMED but witness missing:{wit.get('state')}] {tag} {line_extra}")
            elif wit and wit.get("native_holds") is False:
                print(f"HARNESS-ERROR {tag}: reachability witness fails natively ({wit.get('native_detail')}) although the symbolic run confirmed")
                rc = 2
            else:
                n_dis += 1
                print(f"  [CONFIRMED over all paths] {tag} {line_extra}")
        else:
            if j["meta"]["bughunt"]:
                print(f"  [bug-hunt: no model within budget ({st})] {tag} {line_extra}")
                rec["state"] = "BUGHUNT_NO_MODEL"
                n_ob -= 1
            else:
                inconclusive.append(f"{tag} ({st})")
                print(f"  [INCONCLUSIVE:{st}] {tag} {line_extra} {d.get('detail', '')[:300]}")
        if d.get("artefacts"):
            rec["non_reproducing_models_excluded"] = d["artefacts"]
        ob_records.append(rec)

    wall = time.time() - t_start
    if not samples:
        samples = [{"obligation": r["obligation"], "state": r["state"]} for r in ob_records[:3]]
    ev = {
        "property_id": pid,
        "tier": a.tier,
        "seed": seed,
        "level": "model_checking",
        "coverage": {
            "states": max(paths, 0),
            "transitions": max(queries, 0),
            "traces_validated_against_impl": traces_validated,
            "samples": samples,
            "obligations": n_ob,
            "discharged": n_dis,
            "inconclusive": inconclusive,
            "exhaustive": bool(n_ob and n_ob == n_dis),
            "solver_time_s": round(solver_time, 2),
            "functions_encoded": sorted(functions),
            "obligation_records": ob_records,
            "known_findings_reported": known_lines,
            "weak_obligations": weak,
            "explanation": "states = symbolic paths explored (leaves of CrossHair's path tree, all obligations incl. witness runs); transitions = z3 check() calls; "
                           "each obligation is real repository code executed symbolically; CONFIRMED = path tree exhausted within the stated bounds",
        },
        "assumptions": [
            "CrossHair 0.0.110 + z3 models of Python builtins are faithful; engine patches in engine/symx.py (int(float) in SMT, sqrt lemma, time contracts dropped)",
            "float model per obligation: 'real' = exact real arithmetic (rounding outside the claim), 'ieee' = exact doubles, 'none' = no symbolic floats",
            "stubs and bounds listed per obligation_records entry are part of the claim",
        ],
        "wall_s": round(wall, 2),
        "violations": violations,
    }
    # VERIF_EVIDENCE_DIR: trial runs against a scratch tree (tools/try_seed_wt.sh) must not overwrite the real evidence
    evdir = os.environ.get("VERIF_EVIDENCE_DIR") or os.path.join(HERE, "evidence")
    os.makedirs(evdir, exist_ok=True)
    with open(os.path.join(evdir, f"{pid}.json"), "w") as f:
        json.dump(ev, f, indent=1, sort_keys=True)
    print(f"{pid} tier={a.tier}: obligations={n_ob} discharged={n_dis} inconclusive={len(inconclusive)} violations={violations} paths={paths} z3_queries={queries} solver={solver_time:.1f}s wall={wall:.1f}s")
    return rc


if __name__ == "__main__":
    sys.exit(main())
