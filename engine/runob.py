"""Runs ONE obligation in its own process: witness (vacuity guard), main symbolic
run, native replay of any model.  Prints one JSON document on the last line.

usage: python -m engine.runob <module> <fn> --timeout T [--witness-timeout W]
         [--exclude EXPR ...] [--mutant N] [--replay JSON]
"""
from __future__ import annotations

import argparse
import importlib
import json
import os
import shutil
import sys
import tempfile
import time


def main() -> int:
    ap = argparse.ArgumentParser()
    ap.add_argument("module")
    ap.add_argument("fn")
    ap.add_argument("--timeout", type=float, default=60.0)
    ap.add_argument("--witness-timeout", type=float, default=30.0)
    ap.add_argument("--exclude", action="append", default=[])
    ap.add_argument("--bind", action="append", default=[], help="name=python-literal: case-split argument bound concretely")
    ap.add_argument("--mutant", type=int, default=-1)
    ap.add_argument("--replay", default=None, help="JSON object of concrete args: native replay only")
    ap.add_argument("--no-witness", action="store_true")
    ap.add_argument("--witness-only", action="store_true")
    a = ap.parse_args()

    scratch = tempfile.mkdtemp(prefix="verif_ob_")
    os.environ["VERIF_SCRATCH"] = scratch
    os.environ["CLEMATIS_LOG_DIR"] = os.path.join(scratch, "logs")
    os.environ["CLEMATIS_LOGS_DIR"] = os.path.join(scratch, "logs")
    os.environ["CLEMATIS_SNAPSHOT_DIR"] = os.path.join(scratch, "snaps")
    os.environ.setdefault("CI", "true")
    here = os.path.dirname(os.path.dirname(os.path.abspath(__file__)))
    if here not in sys.path:
        sys.path.insert(0, here)
    os.chdir(scratch)
    rc = 0
    try:
        from engine import symx

        mod = importlib.import_module(a.module)
        fn = getattr(mod, a.fn)
        meta = getattr(fn, "__verif__", {})
        symx.prepare(meta.get("model", "real"))
        if hasattr(mod, "install"):
            mod.install()
        res = {"module": a.module, "fn": a.fn, "model": meta.get("model", "real"), "timeout": a.timeout,
               "pre": symx.pre_lines(fn), "exclude": list(a.exclude), "replays": 0}

        import ast as _ast

        binds = {}
        for b in a.bind:
            k, v = b.split("=", 1)
            binds[k] = _ast.literal_eval(v)
            a.exclude.append(f"{k} == {binds[k]!r}")
        if a.replay is not None:
            kw = symx.unjson(json.loads(a.replay))
            holds, detail = symx.replay_native(fn, kw)
            res.update(state="REPLAY_HOLDS" if holds else "REPLAY_FAILS", detail=detail, model=symx.jsonable(kw))
            print(json.dumps(res))
            return 0

        if a.mutant >= 0:
            descr, apply = mod.MUTANTS[a.fn][a.mutant]
            apply()
            res["mutant"] = descr

        # -- vacuity guard: witness run (own process: solver/engine state must not leak into the main run)
        if a.witness_only:
            symx.WITNESS = True
            try:
                w = symx.run_symbolic(fn, a.witness_timeout, meta.get("per_path"), a.exclude, binds)
            finally:
                symx.WITNESS = False
            wit = {"state": w["state"], "paths": w["paths"], "z3_queries": w["z3_queries"], "z3_time_s": w["z3_time_s"], "replays": 0}
            if w["state"] == "POST_FAIL" and "model" in w:
                wit["model"] = symx.jsonable(w["model"])
                holds, detail = symx.replay_native(fn, w["model"])
                wit["native_holds"] = holds
                wit["native_detail"] = detail
                wit["functions_entered"] = symx.functions_entered(fn, w["model"])
                wit["replays"] = 2
            else:
                wit["detail"] = w.get("detail", "")[:500]
            print(json.dumps(wit))
            return 0
        if not a.no_witness and a.mutant < 0:
            import subprocess

            cmd = [sys.executable, "-m", "engine.runob", a.module, a.fn, "--witness-only", "--witness-timeout", str(a.witness_timeout)]
            for x in a.exclude:
                if not any(x == f"{k} == {v!r}" for k, v in binds.items()):
                    cmd += ["--exclude", x]
            for b in a.bind:
                cmd += ["--bind", b]
            env = dict(os.environ)
            for k in ("VERIF_SCRATCH",):
                env.pop(k, None)
            try:
                p = subprocess.run(cmd, cwd=here, capture_output=True, text=True, timeout=a.witness_timeout * 2.5 + 120, env=env)
                wit = json.loads(p.stdout.strip().splitlines()[-1])
            except Exception as e:
                wit = {"state": "WITNESS_ERROR", "detail": repr(e)[:500]}
            if wit.get("state") == "ENGINE_ERROR":
                raise symx.EngineBug("witness run failed: " + wit.get("detail", ""))
            res["replays"] += int(wit.pop("replays", 0) or 0)
            res["witness"] = wit

        # -- main run; non-reproducing models (real-arithmetic artefacts) are excluded and the search resumed
        extra = list(a.exclude)
        tot = {"paths": 0, "z3_queries": 0, "z3_time_s": 0.0, "z3_unknown": 0, "cpu_s": 0.0, "wall_s": 0.0}
        artefacts = []
        budget = a.timeout
        for attempt in range(4):
            r = symx.run_symbolic(fn, max(5.0, budget), meta.get("per_path"), extra, binds)
            for k in tot:
                tot[k] = round(tot[k] + r.get(k, 0), 3)
            budget -= r.get("cpu_s", 0)
            res["state"] = r["state"]
            res["messages"] = r["messages"]
            res["detail"] = r.get("detail", "")
            if r["state"] in ("POST_FAIL", "EXEC_ERR", "POST_ERR") and "model" in r:
                holds, detail = symx.replay_native(fn, r["model"])
                res["replays"] += 1
                res["model"] = symx.jsonable(r["model"])
                res["native_detail"] = detail
                if not holds:
                    res["state"] = "REFUTED"
                    break
                artefacts.append(symx.jsonable(r["model"]))
                # exclude exactly this point and resume
                conj = " and ".join(f"{k} == {v!r}" for k, v in r["model"].items() if isinstance(v, (int, float, str, bool)) and v == v)
                if not conj or attempt == 3:
                    res["state"] = "ARTEFACT"
                    break
                extra.append(f"not ({conj})")
                continue
            elif r["state"] in ("POST_FAIL", "EXEC_ERR", "POST_ERR"):
                res["state"] = "UNPARSED_MODEL"
            break
        res.update(tot)
        res["artefacts"] = artefacts
        print(json.dumps(res))
    except BaseException as e:  # engine bug or harness import error
        import traceback

        print(json.dumps({"module": a.module, "fn": a.fn, "state": "ENGINE_ERROR", "detail": "".join(traceback.format_exception(type(e), e, e.__traceback__))[-3000:]}))
        rc = 2
    finally:
        os.chdir("/")
        shutil.rmtree(scratch, ignore_errors=True)
    return rc


if __name__ == "__main__":
    sys.exit(main())
