"""Environment models (nondeterministic stubs) used by the harnesses.

FS: in-memory file system with numbered I/O steps, fault / short-write / kill
injection and an observer that inspects a watched destination after every step.
Assumptions of the model (part of every claim that uses it): os.replace is
atomic; a kill stops the process (no later call mutates the disk, `finally`
blocks included); a write of n bytes is two steps (prefix, rest) so torn writes
are visible; fsync/flush/chmod have no visible effect on content.
"""
from __future__ import annotations

import errno
import os
from typing import Callable, Dict, List, Optional


class Killed(BaseException):
    """The process died at this step."""


ERR_KINDS = ["EIO", "ENOSPC", "EACCES", "EBUSY", "SHORT", "KILL"]


class FS:
    def __init__(self, files: Dict[str, bytes], fail_at: int = -1, fail_len: int = 1, kind: int = 0,
                 watch: Optional[str] = None, allowed: Optional[List[Optional[bytes]]] = None,
                 only_op: Optional[str] = None):
        self.files: Dict[str, bytes] = dict(files)
        self.step = 0
        self.fail_at = fail_at
        self.fail_len = fail_len
        self.kind = kind  # index into ERR_KINDS
        self.dead = False
        self.tmpn = 0
        self.log: List[str] = []
        self.watch = watch
        self.allowed = allowed or []
        self.torn_seen = False
        self.faults_fired = 0
        self.only_op = only_op  # restrict faults to one operation name (e.g. "replace")
        self.opcount: Dict[str, int] = {}

    # -- observer: a concurrent reader looking at the destination between any two I/O steps
    def observe(self) -> None:
        if self.watch is None:
            return
        cur = self.files.get(self.watch)
        if not any((cur == a) for a in self.allowed):
            self.torn_seen = True

    def _in_window(self, i: int) -> bool:
        return self.fail_at >= 0 and self.fail_at <= i < self.fail_at + self.fail_len

    def tick(self, name: str) -> Optional[str]:
        """Advance one I/O step. Returns 'SHORT' when a short write should happen; raises on faults."""
        if self.dead:
            raise Killed()
        self.observe()
        if self.only_op is not None:
            if name != self.only_op:
                self.log.append(name)
                return None
            i = self.opcount.get(name, 0)
            self.opcount[name] = i + 1
        else:
            i = self.step
            self.step += 1
        self.log.append(name)
        if self._in_window(i):
            k = ERR_KINDS[self.kind]
            self.faults_fired += 1
            if k == "KILL":
                self.dead = True
                raise Killed()
            if k == "SHORT":
                if name in ("write", "write2"):
                    return "SHORT"
                return None
            if k == "EIO":
                raise OSError(errno.EIO, "EIO")
            if k == "ENOSPC":
                raise OSError(errno.ENOSPC, "ENOSPC")
            if k == "EACCES":
                raise PermissionError(errno.EACCES, "EACCES")
            raise OSError(errno.EBUSY, "EBUSY")
        return None


class FakeFile:
    def __init__(self, fs: FS, path: str, mode: str):
        self.fs, self.path, self.mode = fs, path, mode
        if "w" in mode:
            fs.tick("open_w")
            fs.files[path] = b""
        elif "a" in mode:
            fs.tick("open_a")
            fs.files.setdefault(path, b"")
        else:
            fs.tick("open_r")
            if path not in fs.files:
                raise FileNotFoundError(path)
        self.writes: List[bytes] = []

    def write(self, data) -> int:
        data = bytes(data)
        self.writes.append(data)
        r = self.fs.tick("write")
        half = len(data) // 2
        if r == "SHORT":
            # the kernel accepted only a prefix and reported the short count
            self.fs.files[self.path] = self.fs.files[self.path] + data[:half]
            return half
        self.fs.files[self.path] = self.fs.files[self.path] + data[:half]
        r2 = self.fs.tick("write2")
        if r2 == "SHORT":
            return half
        self.fs.files[self.path] = self.fs.files[self.path] + data[half:]
        return len(data)

    def read(self) -> bytes:
        return self.fs.files[self.path]

    def flush(self):
        self.fs.tick("flush")

    def fileno(self):
        return 7

    def close(self):
        pass

    def __enter__(self):
        return self

    def __exit__(self, *a):
        return False


class FakePath:
    def __init__(self, fs: FS, p):
        self.fs = fs
        self.p = str(p)

    def __str__(self):
        return self.p

    def __fspath__(self):
        return self.p

    @property
    def parent(self):
        return FakePath(self.fs, os.path.dirname(self.p))

    @property
    def name(self):
        return os.path.basename(self.p)

    @property
    def stem(self):
        return os.path.splitext(os.path.basename(self.p))[0]

    @property
    def suffix(self):
        return os.path.splitext(os.path.basename(self.p))[1]

    def mkdir(self, parents=False, exist_ok=False):
        pass

    def exists(self):
        self.fs.tick("exists")
        return self.p in self.fs.files

    def unlink(self, missing_ok=False):
        self.fs.tick("unlink")
        if self.p not in self.fs.files:
            if missing_ok:
                return
            raise FileNotFoundError(self.p)
        del self.fs.files[self.p]

    def stat(self):
        self.fs.tick("stat")
        if self.p not in self.fs.files:
            raise FileNotFoundError(self.p)

        class S:
            st_mode = 0o644

        return S()


def install_atomic(fs: FS) -> Callable[[], None]:
    """Rebinds clematis.io.atomic's os/tempfile/time/open/Path to the model. Returns the undo function."""
    import clematis.io.atomic as A

    class FakeTemp:
        def NamedTemporaryFile(self, prefix="", suffix="", dir=".", delete=False, **kw):
            fs.tick("mktemp")
            fs.tmpn += 1
            name = os.path.join(dir, (prefix or "") + "tmp%d" % fs.tmpn + (suffix or ""))
            fs.files[name] = b""

            class TF:
                def __enter__(s):
                    return s

                def __exit__(s, *a):
                    return False

            tf = TF()
            tf.name = name
            return tf

    class FakeOS:
        O_RDONLY = 0
        path = os.path

        def replace(self, a, b):
            fs.tick("replace")
            a, b = str(a), str(b)
            if a not in fs.files:
                raise FileNotFoundError(a)
            fs.files[b] = fs.files.pop(a)

        def rename(self, a, b):
            self.replace(a, b)

        def unlink(self, a):
            fs.tick("unlink")
            a = str(a)
            if a not in fs.files:
                raise FileNotFoundError(a)
            del fs.files[a]

        remove = unlink

        def fsync(self, fd):
            fs.tick("fsync")

        def chmod(self, p, m):
            fs.tick("chmod")

        def open(self, p, fl, *a):
            fs.tick("diropen")
            return 9

        def close(self, fd):
            pass

        def fspath(self, p):
            return os.fspath(p)

    class FakeTime:
        def sleep(self, s):
            pass

        def time(self):
            return 0.0

    saved = dict(os=A.os, tempfile=A.tempfile, time=A.time, Path=A.Path, has_open=("open" in A.__dict__), open=A.__dict__.get("open"))
    A.os = FakeOS()
    A.tempfile = FakeTemp()
    A.time = FakeTime()
    A.open = lambda p, mode="r", buffering=-1, **kw: FakeFile(fs, str(p), mode)
    A.Path = lambda p: p if isinstance(p, FakePath) else FakePath(fs, p)

    def undo():
        A.os = saved["os"]
        A.tempfile = saved["tempfile"]
        A.time = saved["time"]
        A.Path = saved["Path"]
        if saved["has_open"]:
            A.open = saved["open"]
        else:
            try:
                del A.open
            except AttributeError:
                pass

    return undo


# ---------------------------------------------------------------------------
# deterministic fake executor with a caller-chosen completion order
# ---------------------------------------------------------------------------
class FakeFuture:
    def __init__(self, pool, idx, fn):
        self.pool, self.idx, self.fn = pool, idx, fn
        self.done = False
        self.value = None
        self.exc = None

    def _run(self):
        if self.done:
            return
        self.done = True
        try:
            self.value = self.fn()
        except Exception as e:  # noqa
            self.exc = e
        self.pool.completed.append(self.idx)

    def result(self, timeout=None):
        self.pool._drain()
        if self.exc is not None:
            raise self.exc
        return self.value

    def exception(self, timeout=None):
        self.pool._drain()
        return self.exc


class FakePool:
    """ThreadPoolExecutor stand-in: tasks are atomic and run, at the first result() call, in the order
    given by `order` (a permutation of submission indices; missing indices run last in submit order)."""

    last = None

    def __init__(self, order):
        self.order = list(order)
        self.futs: List[FakeFuture] = []
        self.completed: List[int] = []
        self.max_workers = None
        self.drained = False

    def factory(self):
        pool = self

        def make(max_workers=None, **kw):
            pool.max_workers = max_workers
            FakePool.last = pool
            return pool

        return make

    def __enter__(self):
        return self

    def __exit__(self, *a):
        self._drain()
        return False

    def submit(self, fn, *a, **kw):
        f = FakeFuture(self, len(self.futs), (lambda: fn(*a, **kw)))
        self.futs.append(f)
        return f

    def _drain(self):
        if self.drained:
            return
        self.drained = True
        seen = set()
        for i in self.order:
            if 0 <= i < len(self.futs) and i not in seen:
                seen.add(i)
                self.futs[i]._run()
        for i, f in enumerate(self.futs):
            if i not in seen:
                f._run()

    def shutdown(self, wait=True, **kw):
        self._drain()
