"""Driver around CrossHair's programmatic API: symbolic execution of the real
repository code, path exhaustion decided by z3, counterexample extraction and
native replay.  See DESIGN.md section 1.

Everything that changes CrossHair's behaviour lives here (trusted base).
Engine patches raise EngineBug(BaseException) on internal errors so that the
repository's many `except Exception` handlers cannot swallow them.
"""
from __future__ import annotations

import ast
import collections
import inspect
import math
import os
import re
import sys
import time
import traceback
from typing import Any, Callable, Dict, List, Optional, Tuple

REPO = os.environ.get("VERIF_REPO", "/repo")
if REPO not in sys.path:
    sys.path.insert(0, REPO)


class EngineBug(BaseException):
    """A bug inside the verification engine (never a property verdict)."""


# --------------------------------------------------------------------------
# harness-side helpers (imported by harness modules as `from engine import symx as H`)
# --------------------------------------------------------------------------
WITNESS = os.environ.get("VERIF_WITNESS", "") == "1"
THOROUGH = os.environ.get("VERIF_TIER", "quick") == "thorough"


def verdict(ok: Any) -> bool:
    """Substantive end of a harness.  In witness mode the result is forced to
    False so that a POST_FAIL proves the assertion point is reachable under the
    preconditions (vacuity guard)."""
    if WITNESS:
        return False
    return bool(ok)


_OBLIGATIONS: Dict[str, List[Callable]] = collections.defaultdict(list)


def ob(
    *,
    model: str = "real",
    quick: Optional[float] = 60.0,
    thorough: Optional[float] = 240.0,
    targets: Tuple[str, ...] = (),
    stubs: Tuple[str, ...] = (),
    bounds: str = "",
    bughunt: bool = False,
    per_path: Optional[float] = None,
    note: str = "",
    expect: Optional[str] = None,
    split: Optional[Dict[str, List[Any]]] = None,
    witness_first_only: bool = False,
):
    """Marks a harness function as an obligation.

    model: 'real' (floats as z3 Real), 'ieee' (z3 Float64), 'none' (no symbolic floats)
    quick/thorough: per-condition CPU budget in that tier; None = not run in that tier
    bughunt: open-ended search; a CANNOT_CONFIRM is expected and not counted as inconclusive
    """

    def deco(fn):
        fn.__verif__ = dict(
            model=model,
            quick=quick,
            thorough=thorough,
            targets=list(targets),
            stubs=list(stubs),
            bounds=bounds,
            bughunt=bughunt,
            per_path=per_path,
            note=note,
            expect=expect,
            split=split,
            witness_first_only=witness_first_only,
        )
        _OBLIGATIONS[fn.__module__].append(fn)
        return fn

    return deco


def obligations_of(module) -> List[Callable]:
    return list(_OBLIGATIONS.get(module.__name__, []))


# --------------------------------------------------------------------------
# engine set-up
# --------------------------------------------------------------------------
_PREPARED = False
_Z3_STATS = {"queries": 0, "time": 0.0, "unknown": 0}


def _wrap_z3():
    import z3

    orig = z3.Solver.check

    def check(self, *a, **k):
        t0 = time.perf_counter()
        r = orig(self, *a, **k)
        _Z3_STATS["queries"] += 1
        _Z3_STATS["time"] += time.perf_counter() - t0
        if str(r) == "unknown":
            _Z3_STATS["unknown"] += 1
        return r

    z3.Solver.check = check


def prepare(model: str = "real") -> None:
    """Installs the engine patches. Idempotent per process; `model` fixed per process."""
    global _PREPARED
    if _PREPARED:
        return
    _PREPARED = True
    import crosshair.core_and_libs  # noqa: F401  (registers library models)
    import crosshair.libimpl.builtinslib as bl
    from crosshair.core import _PATCH_REGISTRATIONS
    from crosshair.register_contract import REGISTERED_CONTRACTS

    # -- float model switch
    if model == "realfin":
        # finite reals only (no nan/inf alternatives): clocks, weights validated as finite
        import warnings

        warnings.filterwarnings("ignore", category=FutureWarning)
        os.environ["CROSSHAIR_ONLY_FINITE_FLOATS"] = "1"
    if model == "ieee":
        bl._PYTYPE_TO_WRAPPER_TYPE[float] = ((bl.PreciseIeeeSymbolicFloat, 1.0),)
    else:
        bl._PYTYPE_TO_WRAPPER_TYPE[float] = ((bl.RealBasedSymbolicFloat, 1.0),)

    # -- CrossHair caps every path that touched a real-modelled float at UNKNOWN (reals approximate doubles).
    #    Our claim for 'real' obligations is explicitly "under exact real arithmetic, rounding outside the
    #    claim" (DESIGN 1.4), and every counterexample is replayed with real doubles, so the cap is lifted.
    if model != "ieee":
        from crosshair.statespace import StateSpace

        StateSpace.cap_result_at_unknown = lambda self: None

    # -- never "short-circuit" calls to CrossHair's patched builtins (repr, hash, ...): with probability 0.3 per call
    #    CrossHair replaces the call by a fresh symbolic return value (to be reconciled later), which forks the
    #    path tree at every repr()/hash() in the code under test and turns concrete strings into symbolic ones.
    import crosshair.core as _cc

    _orig_consider = _cc.consider_shortcircuit

    def _never_shortcircuit(fn, sig, bound, subconditions, allow_interpretation):
        if allow_interpretation:
            return None
        return _orig_consider(fn, sig, bound, subconditions, allow_interpretation)

    _cc.consider_shortcircuit = _never_shortcircuit

    # -- int(symbolic float): truncate in SMT instead of realising (real model only)
    try:
        src = inspect.getsource(bl._int)
        marker = "        elif isinstance(val, CrossHairValue):"
        if marker not in src:
            raise EngineBug("crosshair _int layout changed; int(float) patch not applicable")
        src = src.replace("def _int(", "def _int2(", 1)
        src = src.replace(
            marker,
            "        elif isinstance(val, RealBasedSymbolicFloat) and base is _MISSING:\n"
            "            with ResumedTracing():\n"
            "                return val.__int__()\n" + marker,
            1,
        )
        ns = dict(bl.__dict__)
        from crosshair.tracers import ResumedTracing

        ns["ResumedTracing"] = ResumedTracing
        exec(src, ns)
        _PATCH_REGISTRATIONS[int] = ns["_int2"]
    except EngineBug:
        raise
    except Exception as e:  # pragma: no cover
        raise EngineBug(f"int patch failed: {e!r}")

    # -- clocks: drop CrossHair's nondeterministic time contracts (harnesses pass clock readings explicitly)
    for f in (
        time.time,
        time.time_ns,
        time.monotonic,
        time.monotonic_ns,
        time.process_time,
        time.process_time_ns,
    ):
        REGISTERED_CONTRACTS.pop(f, None)
    # -- randomness: only tempfile names use it in the code under test; keep it concrete
    for f in list(REGISTERED_CONTRACTS.keys()):
        if "Random." in str(getattr(f, "__qualname__", "")):
            REGISTERED_CONTRACTS.pop(f, None)

    # -- datetime: timestamps are concrete in every harness; CrossHair's pure-python datetime breaks C-level mixes
    import datetime as _dtm

    for k in list(_PATCH_REGISTRATIONS.keys()):
        mod = getattr(k, "__module__", "") or ""
        selfmod = getattr(getattr(k, "__self__", None), "__module__", "") or ""
        if k in (_dtm.timedelta, _dtm.datetime, _dtm.date, _dtm.time, _dtm.timezone, _dtm.tzinfo) or mod == "datetime" or selfmod == "datetime":
            _PATCH_REGISTRATIONS.pop(k)

    _wrap_z3()


def sym_sqrt(x):
    """math.sqrt for a real-modelled symbolic float: fresh r with r>=0 and r*r==x."""
    import z3
    import crosshair.libimpl.builtinslib as bl
    from crosshair.statespace import context_statespace
    from crosshair.tracers import NoTracing, is_tracing

    if not is_tracing():
        return math.sqrt(x)
    with NoTracing():
        if not isinstance(x, bl.RealBasedSymbolicFloat):
            sym = False
        else:
            sym = True
    if not sym:
        return math.sqrt(x)
    try:
        with NoTracing():
            space = context_statespace()
            # memoised per path on the z3 term, so sqrt of the same expression is the same value
            memo = getattr(space, "_verif_sqrt_memo", None)
            if memo is None:
                memo = {}
                setattr(space, "_verif_sqrt_memo", memo)
            key = x.var.sexpr()
            if key in memo:
                return bl.RealBasedSymbolicFloat(memo[key])
            r = z3.Real(f"sqrt_{space.uniq()}")
            space.add(z3.And(r >= 0, r * r == x.var, z3.Implies(x.var > 0, r > 0)))
            memo[key] = r
            return bl.RealBasedSymbolicFloat(r)
    except Exception as e:
        raise EngineBug(f"sym_sqrt: {e!r}")


def is_symbolic_run() -> bool:
    try:
        from crosshair.tracers import is_tracing

        return bool(is_tracing())
    except Exception:
        return False


# --------------------------------------------------------------------------
# running one obligation
# --------------------------------------------------------------------------
_CALL_RE = re.compile(r"when calling ", re.S)


def _parse_call(msg: str, fname: str) -> Optional[Dict[str, Any]]:
    """Extracts the concrete keyword arguments from a CrossHair message
    '... when calling f(a=1, b=float("nan")) (which returns False)'."""
    m = _CALL_RE.search(msg)
    if not m:
        return None
    tail = msg[m.end():]
    # try successively shorter prefixes ending in ')'
    idxs = [i for i, ch in enumerate(tail) if ch == ")"]
    env = {
        "float": float,
        "nan": float("nan"),
        "inf": float("inf"),
        "math": math,
        "true": True,
        "false": False,
        "__builtins__": {"float": float, "int": int, "str": str, "bool": bool, "dict": dict, "list": list, "tuple": tuple, "set": set, "frozenset": frozenset, "bytes": bytes, "chr": chr, "None": None, "True": True, "False": False},
    }
    captured: Dict[str, Any] = {}

    def cap(*a, **kw):
        captured["args"] = a
        captured["kw"] = kw
        return None

    env[fname] = cap
    for i in reversed(idxs):
        expr = tail[: i + 1]
        try:
            tree = ast.parse(expr, mode="eval")
        except SyntaxError:
            continue
        if not isinstance(tree.body, ast.Call):
            continue
        try:
            eval(compile(tree, "<cx>", "eval"), env)
        except Exception:
            continue
        if "kw" in captured:
            return {"args": list(captured["args"]), "kw": captured["kw"]}
    return None


def _bind(fn, parsed) -> Dict[str, Any]:
    sig = inspect.signature(fn)
    ba = sig.bind(*parsed["args"], **parsed["kw"])
    return dict(ba.arguments)


def jsonable(v: Any) -> Any:
    if isinstance(v, float):
        if v != v:
            return "nan"
        if v in (float("inf"), float("-inf")):
            return "inf" if v > 0 else "-inf"
        return v
    if isinstance(v, (int, str, bool)) or v is None:
        return v
    if isinstance(v, bytes):
        return {"__bytes__": v.decode("latin-1")}
    if isinstance(v, (list, tuple)):
        return [jsonable(x) for x in v]
    if isinstance(v, dict):
        return {"__dict__": [[jsonable(k), jsonable(x)] for k, x in v.items()]}
    return repr(v)


def unjson(v: Any) -> Any:
    if v == "nan":
        return float("nan")
    if v == "inf":
        return float("inf")
    if v == "-inf":
        return float("-inf")
    if isinstance(v, list):
        return [unjson(x) for x in v]
    if isinstance(v, dict):
        if "__bytes__" in v:
            return v["__bytes__"].encode("latin-1")
        if "__dict__" in v:
            out = {}
            for k, x in v["__dict__"]:
                k = unjson(k)
                if isinstance(k, list):
                    k = tuple(k)
                out[k] = unjson(x)
            return out
    return v


def replay_native(fn, kwargs: Dict[str, Any]) -> Tuple[bool, str]:
    """Runs the harness natively (no tracing) on concrete arguments.
    Returns (holds, detail). `holds` False means the violation reproduces."""
    global WITNESS
    saved = WITNESS
    WITNESS = False
    try:
        sig = inspect.signature(fn)
        # coerce ints to floats where annotated float
        kw = {}
        for name, p in sig.parameters.items():
            if name not in kwargs:
                continue
            v = kwargs[name]
            if p.annotation is float and isinstance(v, int) and not isinstance(v, bool):
                v = float(v)
            kw[name] = v
        try:
            r = fn(**kw)
        except EngineBug:
            raise
        except Exception as e:
            return False, "raised " + "".join(traceback.format_exception_only(type(e), e)).strip()
        return bool(r), f"returned {r!r}"
    finally:
        WITNESS = saved


def _add_pre(fn, extra_pre: List[str], binds: Optional[Dict[str, Any]] = None):
    """Returns a wrapper of fn (same name/signature) whose PEP316 docstring has additional `pre:` lines placed
    first.  CrossHair reads contracts from the *source text*, so the wrapper is written to a real file."""
    if not extra_pre and not binds:
        return fn
    import types
    import linecache

    import textwrap

    full = inspect.getsource(fn)
    k = full.index("def " + fn.__name__ + "(")
    src_lines = textwrap.dedent(full[k:]).split("\n")
    q = next(i for i, l in enumerate(src_lines) if l.strip().startswith('"""'))
    if src_lines[q].strip() != '"""':
        raise EngineBug("harness docstring must open with a line holding only three quotes")
    src_lines[q + 1:q + 1] = [f"    pre: {p}" for p in extra_pre]
    if binds:
        # case-split arguments are rebound to their literal value at the top of the body, so the code under
        # test sees a concrete value (the matching `pre: arg == value` keeps the reported model consistent)
        qe = next(i for i in range(q + 1, len(src_lines)) if src_lines[i].strip().endswith('"""'))
        src_lines[qe + 1:qe + 1] = [f"    {k} = {v!r}" for k, v in binds.items()]
    src = "\n".join(src_lines) + "\n"
    d = os.environ.get("VERIF_SCRATCH") or os.getcwd()
    _add_pre.n = getattr(_add_pre, "n", 0) + 1
    path = os.path.join(d, f"_assume_{fn.__name__}_{_add_pre.n}.py")
    with open(path, "w") as f:
        f.write(src)
    mod = types.ModuleType(f"_assume_{fn.__name__}_{_add_pre.n}")
    mod.__dict__.update(fn.__globals__)
    mod.__dict__["__name__"] = mod.__name__
    mod.__file__ = path
    sys.modules[mod.__name__] = mod
    linecache.checkcache(path)
    exec(compile(src, path, "exec"), mod.__dict__)
    g = mod.__dict__[fn.__name__]
    g.__module__ = mod.__name__
    return g


def pre_lines(fn) -> List[str]:
    return [l.strip() for l in (fn.__doc__ or "").split("\n") if l.strip().startswith("pre:")]


def run_symbolic(fn, timeout: float, per_path: Optional[float] = None, extra_pre: Optional[List[str]] = None, binds: Optional[Dict[str, Any]] = None) -> Dict[str, Any]:
    """Symbolically executes `fn` (PEP316 contract in its docstring) until the
    path tree is exhausted, a model is found, or the CPU budget is used up."""
    from crosshair.core_and_libs import analyze_function, run_checkables
    from crosshair.options import AnalysisKind, AnalysisOptionSet

    f = _add_pre(fn, list(extra_pre or []), binds)
    stats: collections.Counter = collections.Counter()
    opts = AnalysisOptionSet(
        per_condition_timeout=timeout,
        report_all=True,
        analysis_kind=[AnalysisKind.PEP316],
        max_uninteresting_iterations=sys.maxsize,
        stats=stats,
        per_path_timeout=per_path,
    )
    q0, t0z, u0 = _Z3_STATS["queries"], _Z3_STATS["time"], _Z3_STATS["unknown"]
    t0 = time.time()
    c0 = time.process_time()
    msgs = run_checkables(analyze_function(f, opts))
    wall = time.time() - t0
    cpu = time.process_time() - c0
    out: Dict[str, Any] = {
        "paths": int(stats.get("num_paths", 0)),
        "z3_queries": _Z3_STATS["queries"] - q0,
        "z3_time_s": round(_Z3_STATS["time"] - t0z, 3),
        "z3_unknown": _Z3_STATS["unknown"] - u0,
        "wall_s": round(wall, 2),
        "cpu_s": round(cpu, 2),
        "messages": [],
    }
    state = None
    for m in msgs:
        out["messages"].append({"state": m.state.name, "message": m.message[:2000]})
        state = state or m.state.name
    if not msgs:
        out["state"] = "NO_CONDITIONS"
        return out
    names = [m.state.name for m in msgs]
    if any(n in ("POST_FAIL", "EXEC_ERR", "POST_ERR", "PRE_INVALID", "SYNTAX_ERR", "IMPORT_ERR") for n in names):
        bad = next(m for m in msgs if m.state.name in ("POST_FAIL", "EXEC_ERR", "POST_ERR", "PRE_INVALID", "SYNTAX_ERR", "IMPORT_ERR"))
        out["state"] = bad.state.name
        out["detail"] = bad.message[:2000]
        if "NotDeterministic" in bad.message:
            out["state"] = "NONDET"
        parsed = _parse_call(bad.message, fn.__name__)
        if parsed is not None:
            try:
                out["model"] = _bind(fn, parsed)
            except Exception as e:
                out["model_error"] = repr(e)
    elif "PRE_UNSAT" in names:
        out["state"] = "PRE_UNSAT"
    elif "CANNOT_CONFIRM" in names:
        out["state"] = "CANNOT_CONFIRM"
    elif all(n == "CONFIRMED" for n in names):
        out["state"] = "CONFIRMED"
    else:
        out["state"] = "UNKNOWN:" + ",".join(names)
    return out


# --------------------------------------------------------------------------
# functions entered during a native run (evidence: functions_encoded)
# --------------------------------------------------------------------------
def functions_entered(fn, kwargs: Dict[str, Any]) -> List[str]:
    seen = set()
    root = os.path.realpath(REPO) + os.sep

    def prof(frame, event, arg):
        if event == "call":
            fnm = frame.f_code.co_filename
            if fnm.startswith(root):
                seen.add(fnm[len(root):] + ":" + frame.f_code.co_name)

    sys.setprofile(prof)
    try:
        try:
            replay_native(fn, kwargs)
        except EngineBug:
            raise
        except BaseException:
            pass
    finally:
        sys.setprofile(None)
    return sorted(s for s in seen if not s.endswith(":<module>") and "<" not in s.split(":")[1])

