"""C01 — turn execution is reproducible byte-for-byte.

Decided here: independence from the wall clock / perf counter (turn level, clocks symbolic) and from the listing /
insertion order of graph nodes, edges and memory episodes (the tie-break kernels).  Hash seed, process freshness and
thread timing are properties of the interpreter, not of a path condition: outside the reach of this technique
(C09 covers completion order at task granularity; C16 covers CI normalisation).
"""
from __future__ import annotations

import copy
import itertools
from types import SimpleNamespace as NS

from engine import symx as H
from harness import world as W
import clematis.engine.orchestrator.core as OC
import clematis.engine.apply as AP
import clematis.engine.snapshot as S
import clematis.engine.stages.t1 as T1
import clematis.engine.stages.t2.cache as T2C
import clematis.engine.stages.t2.core as T2CORE
from clematis.engine.cache import CacheManager
from clematis.engine.types import Node, Edge, T1Result
from clematis.graph.store import InMemoryGraphStore
from clematis.engine.stages.t2 import t2_semantic


def pick(lst, i):
    for j, v in enumerate(lst):
        if i == j:
            return v
    raise IndexError(i)


def install():
    W.stub_store_etag()  # order_t1 uses symbolic edge weights (T1 cache off there); clock_turns uses concrete weights


class Clock:
    """Fake `time` module: wall clock `now` (settable), perf counter advancing by `step` per reading."""

    def __init__(self, now, step):
        self.now = now
        self.step = step
        self.pc = 0.0

    def time(self):
        return self.now

    def perf_counter(self):
        self.pc = self.pc + self.step
        return self.pc

    def sleep(self, s):
        pass


STEPS = [0.0, 1e-6, 0.0123, 7.5]


def _two_turns(t_start, gap, step, same_text, sched=False):
    """Two consecutive real turns; every wall-clock consumer reads the fake clock."""
    W.reset_globals()
    over = {"t1": {"decay": {"mode": "exp_floor", "rate": 0.6, "floor": 0.05}, "cache": {"enabled": True, "max_entries": 8, "ttl_s": 300}},
            "t2": {"cache": {"enabled": True, "max_entries": 8, "ttl_s": 300}},
            "t4": {"snapshot_every_n_turns": 1, "cache": {"enabled": True, "ttl_sec": 600}, "cache_bust_mode": "none"}}
    if sched:
        # scheduler on with a pop budget that binds: the turn yields at the T1 boundary (budget-driven, clock-independent)
        over["scheduler"] = {"enabled": True, "quantum_ms": 10 ** 9, "budgets": {"t1_pops": 2, "wall_ms": 10 ** 9}}
    cfg = W.make_cfg(over, memo=("c01", True if sched else False))
    clk = Clock(t_start, step)
    state = W.make_state()
    state["_cache_mgr"] = CacheManager(max_entries=64, ttl_sec=600, time_fn=clk.time)
    ctx0 = W.make_ctx(cfg, turn_id=1, agent="A", now_ms=1000)
    # create the stage caches up front and hand them the fake clock (they bind time.time at construction)
    c1, _ = T1._get_cache(ctx0, cfg["t1"])
    c1._inner._ns._time = clk.time
    c2, _ = T2C.get_cache(ctx0, cfg["t2"])
    c2._inner._ns._time = clk.time
    saved = (OC.time, AP.time, S.time)
    OC.time = AP.time = S.time = clk
    views = []
    try:
        for turn, text in ((1, "alpha beta"), (2, "alpha beta" if same_text else "beta gamma")):
            ctx = W.make_ctx(cfg, turn_id=turn, agent="A", now_ms=1000 * turn)
            res, spy = W.run_turn(ctx, state, text)
            views.append((res.line, W.canonical(spy.records), [t for _, t in spy.snapshots]))
            clk.now = clk.now + gap
    finally:
        OC.time, AP.time, S.time = saved
        W.reset_globals()
    return views, state.get("version_etag")


@H.ob(model="realfin", quick=500, thorough=1200, per_path=300,
      targets=("clematis/engine/orchestrator/core.py:Orchestrator.run_turn", "clematis/engine/util/io_logging.py:normalize_for_identity", "clematis/engine/cache.py:_NamespaceCache.get", "clematis/engine/apply.py:apply_changes", "clematis/engine/snapshot.py:write_snapshot"),
      stubs=("orchestrator.core.time / apply.time / snapshot.time and the time_fn of the T1, T2 and turn-level caches -> one fake clock: wall clock = symbolic start + symbolic gap between the turns, perf counter advancing by a step chosen from {0, 1e-6, 0.0123, 7.5} s per reading", "TurnSpy log/snapshot capture under CI normalisation"),
      bounds="two consecutive real turns (same or different text) on world W3/M3, stage caches and turn cache on (TTL 300 s / 600 s); scheduler off, or on with a binding pop budget so that the turns yield at the T1 boundary (huge quantum / wall budget: the yield is budget-driven); wall-clock start symbolic real >= 0, gap between the turns symbolic real >= 0; perf-counter speed by symbolic index over 4 speeds; reference: the same history with a frozen clock",
      split={"si": [0, 1, 2, 3], "same_text": [False, True], "sched": [False, True]},
      note="C01.a clock non-interference: utterances, canonical t1/t2/t4/apply/turn/health records (CI normalisation) and snapshot bodies of both turns equal those of the frozen-clock run, whatever the wall clock and the perf counter read")
def clock_turns(t0: float, gap: float, si: int, same_text: bool, sched: bool) -> bool:
    """
    pre: 0.0 <= t0 <= 2.0e9 and 0.0 <= gap <= 1.0e7 and 0 <= si <= 3
    post: _
    """
    step = pick(STEPS, si)
    try:
        got = _two_turns(t0, gap, step, same_text, sched)
        ref = _two_turns(1000.0, 0.0, 0.0, same_text, sched)
    except Exception:
        return False
    return H.verdict(got == ref)


# ----------------------------------------------------------------------------- order independence kernels
PERM3 = list(itertools.permutations(range(3)))


@H.ob(model="realfin", quick=300, thorough=900,
      targets=("clematis/engine/stages/t1.py:_match_keywords", "clematis/engine/stages/t1.py:_t1_one_graph", "clematis/graph/store.py:InMemoryGraphStore.csr"),
      stubs=("t1.stable_key -> constant (T1 cache off)",),
      bounds="graph with 3 nodes (two of them sharing the label that seeds them, one tagged) and 3 edges with symbolic real weights in [-2,2] (ties allowed; quick: the back edge disabled (weight 0)); nodes and edges inserted in every permutation",
      split={"pn": [0, 1, 2, 3, 4, 5], **({"pe": [0, 1, 2, 3, 4, 5]} if H.THOROUGH else {})},
      note="C01.c propagation does not depend on the insertion order of nodes and edges in the store (dict iteration order), including equal labels and equal weights")
def order_t1(w0: float, w1: float, w2: float, pn: int, pe: int) -> bool:
    """
    pre: -2.0 <= w0 <= 2.0 and -2.0 <= w1 <= 2.0 and -2.0 <= w2 <= 2.0 and 0 <= pn < 6 and 0 <= pe < 6
    pre: H.THOROUGH or w2 == 0.0
    post: _
    """
    nodes = [Node(id="a", label="alpha"), Node(id="b", label="alpha"), Node(id="c", label="gamma", attrs={"tags": ["alpha"]})]
    edges = [Edge(id="e1", src="a", dst="c", weight=w0, rel="supports"), Edge(id="e2", src="b", dst="c", weight=w1, rel="supports"), Edge(id="e3", src="c", dst="a", weight=w2, rel="associates")]

    def run(no, eo):
        s = InMemoryGraphStore()
        s.upsert_nodes("g", [nodes[i] for i in no])
        s.upsert_edges("g", [edges[i] for i in eo])
        cfg = W.to_attr({"t1": {"queue_budget": 6, "radius_cap": 3, "iter_cap": 50, "iter_cap_layers": 3, "node_budget": 1.5,
                                "edge_type_mult": {"supports": 1.0, "associates": 0.6}, "decay": {"mode": "exp_floor", "rate": 0.6, "floor": 0.05}, "cache": {"enabled": False}}})
        ctx = NS(cfg=cfg, config=cfg, turn_id=1, agent_id="A")
        saved = T1.stable_key
        T1.stable_key = lambda o: "K"
        try:
            r = T1.t1_propagate(ctx, {"store": s, "active_graphs": ["g"]}, "Alpha")
        finally:
            T1.stable_key = saved
        return r.graph_deltas, {k: v for k, v in r.metrics.items() if k != "max_delta"}

    base = run((0, 1, 2), (0, 1, 2))
    other = run(pick(PERM3, pn), pick(PERM3, pe))
    return H.verdict(base == other)


@H.ob(model="realfin", quick=400, thorough=900,
      targets=("clematis/memory/index.py:InMemoryIndex._rank_by_cosine", "clematis/engine/stages/t2/core.py:t2_semantic"),
      stubs=("memory.index._cosine -> symbolic score per episode; t2.core.stable_key -> constant; numpy mean/max shim",),
      bounds="memory M3 with symbolic finite scores (ties allowed) added to the index in every permutation (symbolic index); k_retrieval 1..3; ranking weights symbolic in [0,1]",
      split={"k": [1, 2, 3]},
      note="C01.c retrieval does not depend on the order in which episodes were added: same hits, same order, same residual deltas (ties broken by id)")
def order_t2(s0: float, s1: float, s2: float, a: float, b: float, perm: int, k: int) -> bool:
    """
    pre: 0 <= perm < 6 and 1 <= k <= 3 and 0.0 <= a <= 1.0 and 0.0 <= b <= 1.0
    pre: H.THOROUGH or b == 0.0
    post: _
    """
    scores = [s0, s1, s2]

    def run(order):
        W.reset_globals()
        idx = W.make_index(owners=["A", "A", "A"])
        eps = list(idx._eps)
        idx._eps[:] = [eps[i] for i in order]
        state = W.make_state(index=idx)
        cfg = {"t2": {"backend": "inmemory", "k_retrieval": k, "sim_threshold": -1.0, "tiers": ["exact_semantic", "cluster_semantic", "archive"], "exact_recent_days": 30, "clusters_top_m": 2,
                      "owner_scope": "any", "ranking": {"alpha_sim": a, "beta_recency": b, "gamma_importance": 0.0}, "residual_cap_per_turn": 8, "cache": {"enabled": False}},
               "t1": {"cache": {"enabled": False}}}
        ctx = W.make_ctx(cfg, turn_id=1, agent="A")
        saved = T2CORE.stable_key
        T2CORE.stable_key = lambda o: "K"
        try:
            with W.CosineStub(scores), W.NumpyShim():
                r = t2_semantic(ctx, state, "beta", T1Result(graph_deltas=[], metrics={}))
        finally:
            T2CORE.stable_key = saved
            W.reset_globals()
        return [(x.id, x.score) for x in r.retrieved], r.graph_deltas_residual, r.metrics["k_returned"]

    return H.verdict(run((0, 1, 2)) == run(pick(PERM3, perm)))


# ----------------------------------------------------------------------------- string-hash seed, modelled as a stub
import clematis.memory.index as MI  # noqa: E402
import clematis.engine.stages.t1 as T1M  # noqa: E402
import clematis.engine.gel as GELM  # noqa: E402
import clematis.engine.stages.hybrid as HYB  # noqa: E402

SALTS = [0, 1, 0x9E3779B97F4A7C15, -12345]


@H.ob(model="realfin", quick=300, thorough=600,
      targets=("clematis/memory/index.py:_stable_cluster_id", "clematis/memory/index.py:InMemoryIndex._search_with_episodes", "clematis/engine/stages/t2/core.py:t2_semantic"),
      stubs=("the builtin hash() as seen from memory.index, t2.core, t1, gel and hybrid -> salted hash with the salt chosen by symbolic index (models PYTHONHASHSEED for values that flow through hash(); iteration order of str sets is NOT modelled)",
             "memory.index._cosine -> symbolic scores; t2.core.stable_key -> constant"),
      bounds="memory of 3 episodes without explicit cluster ids (derived cluster ids), cluster tier only, clusters_top_m 1..2, symbolic scores with ties allowed; 4 hash salts",
      split={"m": [1, 2], "sb": [1, 2, 3]},
      note="C01 hash-seed non-interference (modelled): retrieval through derived cluster ids gives the same hits in the same order under every salt of the string hash")
def hashseed_stub(s0: float, s1: float, s2: float, m: int, sa: int, sb: int) -> bool:
    """
    pre: 1 <= m <= 2 and sa == 0 and 1 <= sb <= 3
    post: _
    """
    scores = [s0, s1, s2]

    def run(salt):
        W.reset_globals()
        real = hash
        salted = lambda x: real((salt, x))  # noqa: E731
        mods = (MI, T2CORE, T1M, GELM, HYB)
        for md in mods:
            md.__dict__["hash"] = salted
        try:
            state = W.make_state(index=W.make_index(owners=["A", "A", "A"]))
            cfg = {"t2": {"backend": "inmemory", "k_retrieval": 3, "sim_threshold": -1.0, "tiers": ["cluster_semantic"], "clusters_top_m": m, "owner_scope": "any",
                          "ranking": {"alpha_sim": 1.0, "beta_recency": 0.0, "gamma_importance": 0.0}, "cache": {"enabled": False}}, "t1": {"cache": {"enabled": False}}}
            ctx = W.make_ctx(cfg, turn_id=1, agent="A")
            saved = T2CORE.stable_key
            T2CORE.stable_key = lambda o: "K"
            try:
                with W.CosineStub(scores), W.NumpyShim():
                    r = t2_semantic(ctx, state, "beta", T1Result(graph_deltas=[], metrics={}))
            finally:
                T2CORE.stable_key = saved
        finally:
            for md in mods:
                md.__dict__.pop("hash", None)
            W.reset_globals()
        return [x.id for x in r.retrieved]

    return H.verdict(run(pick(SALTS, sa)) == run(pick(SALTS, sb)))
