"""C10 — the agent batch driver commits exactly like a sequential loop.

Real code: clematis.engine.orchestrator.parallel (_select_independent_batch,
_run_agents_parallel_batch, _sort_turn_buffers), LogStager back-pressure protocol.
The compute phase is either a stub that follows the documented dry-run contract
(driver_* obligations here) or the real stage pipeline (harness/c10w.py: real_pipeline).
"""
from __future__ import annotations

import copy
from types import SimpleNamespace as NS

from engine import symx as H
import clematis.engine.orchestrator as ORCH
import clematis.engine.orchestrator.parallel as P
import clematis.engine.util.io_logging as IOL
from clematis.engine.types import ProposedDelta

GRAPHS = ["g1", "g2", "g3"]


SUBSETS = [[], ["g1"], ["g2"], ["g1", "g2"], ["g3"], ["g1", "g3"], ["g2", "g3"], ["g1", "g2", "g3"]]


def _gset(mask):
    # table lookup (a symbolic index forks into the 8 concrete subsets; bit operations on symbolic ints are slow)
    return list(SUBSETS[mask])


@H.ob(model="none", quick=300, thorough=600,
      targets=("clematis/engine/orchestrator/parallel.py:_select_independent_batch", "clematis/engine/orchestrator/parallel.py:_resolve_graphs_for_agent"),
      bounds="4 agents (quick: the 4th has no graphs), each with a symbolic subset of 3 graphs (8 masks each, empty set included); worker limit unbounded int (<= 0 normalised to 1); graph sets supplied through state['agents'] or state['graphs_by_agent'] by symbolic flag",
      split={"m0": list(range(8))},
      note="C10.a batch selection: picked agents have pairwise-disjoint graph sets, are chosen greedily in task order, at most max(1, limit) of them; an agent overlapping an earlier pick is never in the batch; an agent left out overlaps a pick or arrived after the limit was reached")
def select_batch(m0: int, m1: int, m2: int, m3: int, workers: int, via_agents: bool) -> bool:
    """
    pre: 0 <= m0 < 8 and 0 <= m1 < 8 and 0 <= m2 < 8 and 0 <= m3 < 8
    pre: H.THOROUGH or m3 == 0
    post: _
    """
    ids = ["A", "B", "C", "D"]
    sets = [_gset(m) for m in (m0, m1, m2, m3)]
    if via_agents:
        state = {"agents": {a: {"graphs": list(g)} for a, g in zip(ids, sets)}}
    else:
        state = {"graphs_by_agent": {a: list(g) for a, g in zip(ids, sets)}}
    before = copy.deepcopy(state)
    picked = P._select_independent_batch(list(ids), state, workers)
    if state != before:
        return False
    limit = workers if workers >= 1 else 1
    # reference: greedy
    exp, used = [], set()
    for a, g in zip(ids, sets):
        if len(exp) >= limit:
            break
        if not (used & set(g)):
            exp.append(a)
            used |= set(g)
    ok = picked == exp and len(picked) <= limit
    pm = [set(sets[ids.index(a)]) for a in picked]
    for i in range(len(pm)):
        for j in range(i + 1, len(pm)):
            ok = ok and not (pm[i] & pm[j])
    return H.verdict(ok)


# ----------------------------------------------------------------------------- driver with a contract-following compute stub
STREAMS = ["t1.jsonl", "t2.jsonl", "t4.jsonl", "custom.jsonl"]


def _ids(nag, rev):
    # task order is not the lexicographic agent order when rev is set
    return (["C", "B", "A"] if rev else ["A", "B", "C"])[:nag]


def _run_driver(limit, nag, nlogs, size_i, workers, masks, rev=False):
    """Runs the real batch driver with stub compute/apply and an in-memory sink. Returns (results, sink, state)."""
    ids = _ids(nag, rev)
    state = {"graphs_by_agent": {a: _gset(m) for a, m in zip(ids, masks)}, "version_etag": "10", "applied": []}
    perf = {"enabled": True, "parallel": {"enabled": True, "agents": True, "max_workers": workers}}
    cfg = {"perf": perf, "t4": {"cache_bust_mode": "none", "snapshot_every_n_turns": 1000}}
    ctx = NS(turn_id=5, agent_id="driver", cfg=cfg, config=NS(t4=cfg["t4"]), now_ms=0)
    sink = []
    filler = ["", "x" * 40, "y" * 400][size_i]

    def compute(ctx_, base, aid, text):
        logs = [(STREAMS[k % 4], {"turn": 5, "agent": aid, "k": k, "pad": filler}) for k in range(nlogs)]
        return {"turn_id": 5, "slice_idx": 0, "agent_id": aid, "logs": logs,
                "deltas": [ProposedDelta("node", "n:" + aid, "weight", 0.1, None, 0)], "dialogue": "utter-" + aid,
                "graphs_touched": set(), "graph_versions": {}, "t2_info": {}, "plan_reflection": False}

    def apply_stub(ctx_, st, t4):
        st["applied"].append([d.target_id for d in t4.approved_deltas])
        st["version_etag"] = str(int(st["version_etag"]) + 1)
        return NS(applied=len(t4.approved_deltas), clamps=0, version_etag=st["version_etag"], snapshot_path=None, metrics={"cache_invalidations": 0})

    saved = {k: ORCH.__dict__.get(k) for k in ("_run_turn_compute", "apply_changes", "enable_staging", "_append_jsonl_unbuffered")}
    ORCH._run_turn_compute = compute
    ORCH.apply_changes = apply_stub
    ORCH.enable_staging = lambda: IOL.enable_staging(limit)
    ORCH._append_jsonl_unbuffered = lambda path, payload: sink.append((path, payload))
    try:
        res = P._run_agents_parallel_batch(ctx, state, [(a, "hello " + a) for a in ids])
    finally:
        for k, v in saved.items():
            if v is None:
                ORCH.__dict__.pop(k, None)
            else:
                setattr(ORCH, k, v)
        IOL.disable_staging()
    return res, sink, state


def _per_file(sink):
    out = {}
    for path, payload in sink:
        out.setdefault(path, []).append((payload.get("agent"), payload.get("k"), payload.get("version_etag")))
    return out


@H.ob(model="none", quick=300, thorough=900,
      targets=("clematis/engine/orchestrator/parallel.py:_run_agents_parallel_batch", "clematis/engine/orchestrator/parallel.py:_sort_turn_buffers", "clematis/engine/util/io_logging.py:LogStager.stage"),
      stubs=("compute phase -> stub following the dry-run contract (k log records over 4 streams per agent, one approved delta, an utterance)", "apply_changes -> recording stub (version +1)", "_append_jsonl_unbuffered -> in-memory sink", "enable_staging(limit) with the symbolic byte limit"),
      bounds="1..3 agents with disjoint graph sets, submitted in ascending or descending id order (symbolic flag); 0..4 log records per agent; record size class in {tiny, 40 B, 400 B}; staging byte limit: unbounded int >= 1; worker limit 2..4",
      split={"nag": [1, 2, 3], "size_i": [0, 1, 2], "rev": [False, True]},
      note="C10.b the batch driver's results, final state and per-file line sequences do not depend on the staging byte limit (from 1 byte upward) and equal the sequential order; no exception escapes")
def driver_backpressure(limit: int, nag: int, nlogs: int, size_i: int, workers: int, rev: bool) -> bool:
    """
    pre: limit >= 1 and 1 <= nag <= 3 and 0 <= nlogs <= 4 and 0 <= size_i <= 2 and 2 <= workers <= 4
    post: _
    """
    masks = [1, 2, 4]
    try:
        res, sink, state = _run_driver(limit, nag, nlogs, size_i, workers, masks, rev)
    except Exception:
        return False
    ref_res, ref_sink, ref_state = _run_driver(10 ** 9, nag, nlogs, size_i, workers, masks, rev)
    ok = [r.line for r in res] == [r.line for r in ref_res] and state == ref_state
    ok = ok and _per_file(sink) == _per_file(ref_sink) and len(sink) == len(ref_sink)
    # sequential reference: agents in task order, each: its logs then its apply record
    ids = _ids(nag, rev)[:min(nag, workers)]
    ok = ok and [r.line for r in ref_res] == ["utter-" + a for a in ids]
    seq = {}
    ver = 10
    for a in ids:
        for k in range(nlogs):
            seq.setdefault(STREAMS[k % 4], []).append((a, k, None))
        ver += 1
        seq.setdefault("apply.jsonl", []).append((a, None, str(ver)))
    ok = ok and _per_file(ref_sink) == seq and ref_state["applied"] == [["n:" + a] for a in ids]
    return H.verdict(ok)


@H.ob(model="none", quick=200, thorough=400,
      targets=("clematis/engine/orchestrator/parallel.py:_run_agents_parallel_batch", "clematis/engine/orchestrator/parallel.py:_select_independent_batch"),
      stubs=("as driver_backpressure",),
      bounds="3 agents (ascending or descending id order by symbolic flag) with symbolic graph-set masks over 3 graphs; worker limit 2..3; byte limit huge",
      split={"m0": [1, 2, 3, 5, 7]},
      note="C10.a/b agents whose graphs overlap an already selected agent are not computed or committed in the batch; the committed ones are exactly the greedy independent prefix, in order")
def driver_overlap(m0: int, m1: int, m2: int, workers: int, rev: bool) -> bool:
    """
    pre: 0 <= m0 < 8 and 0 <= m1 < 8 and 0 <= m2 < 8 and 2 <= workers <= 3
    post: _
    """
    masks = [m0, m1, m2]
    res, sink, state = _run_driver(10 ** 9, 3, 1, 0, workers, masks, rev)
    exp, used = [], set()
    for a, m in zip(_ids(3, rev), masks):
        if len(exp) >= workers:
            break
        if not (used & set(_gset(m))):
            exp.append(a)
            used |= set(_gset(m))
    ok = state["applied"] == [["n:" + a] for a in exp] and [r.line for r in res] == ["utter-" + a for a in exp]
    ok = ok and [p.get("agent") for path, p in sink if path == "apply.jsonl"] == exp
    return H.verdict(ok)


# ----------------------------------------------------------------------------- per-agent context clone
CLONE_ATTRS = ["now_ms", "seed", "slice_idx"]


@H.ob(model="none", quick=120, thorough=300,
      targets=("clematis/engine/orchestrator/parallel.py:_clone_ctx_for_agent",),
      bounds="driver context carrying cfg/config/now plus now_ms, seed, slice_idx: each present or absent by symbolic flag, values unbounded symbolic ints (0 and negatives included); agent id by index over 3, turn id symbolic int",
      note="C10 per-agent context: the clone used for every agent turn (identity path and compute phase) carries exactly the driver context's fields with their values - a field that is set stays set, whatever its value - specialised only in agent and turn id")
def clone_ctx(now_ms: int, seed: int, slice_idx: int, has_now_ms: bool, has_seed: bool, has_slice: bool, ai: int, turn: int) -> bool:
    """
    pre: 0 <= ai <= 2
    post: _
    """
    cfg = {"perf": {"enabled": True}}
    ctx = NS(cfg=cfg, config=cfg, now="2025-01-10T00:00:00Z")
    if has_now_ms:
        ctx.now_ms = now_ms
    if has_seed:
        ctx.seed = seed
    if has_slice:
        ctx.slice_idx = slice_idx
    aid = ["A", "B", "C"][ai]
    c = P._clone_ctx_for_agent(ctx, aid, turn)
    ok = c.agent_id == aid and c.turn_id == turn and c.cfg is cfg and c.config is cfg and c.now == ctx.now
    ok = ok and hasattr(c, "now_ms") == has_now_ms and hasattr(c, "seed") == has_seed and hasattr(c, "slice_idx") == has_slice
    if has_now_ms:
        ok = ok and c.now_ms == now_ms
    if has_seed:
        ok = ok and c.seed == seed
    if has_slice:
        ok = ok and c.slice_idx == slice_idx
    return H.verdict(ok)
