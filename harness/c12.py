"""C12 — propagation follows the documented spreading rule within its budgets.

Real code: clematis.engine.stages.t1.t1_propagate/_t1_one_graph/_match_keywords/_compute_decay on the real
InMemoryGraphStore.  Edge weights, node budget and every cap/budget are symbolic; graphs are small and concrete.
"""
from __future__ import annotations

import copy
import heapq

from engine import symx as H
from harness import world as W
from types import SimpleNamespace as NS
from clematis.engine.types import Node, Edge
from clematis.graph.store import InMemoryGraphStore
import clematis.engine.stages.t1 as T1

EPS = 1e-6
MULT = {"supports": 1.0, "associates": 0.6, "contradicts": 0.8}
DECAYS = [{"mode": "exp_floor", "rate": 0.6, "floor": 0.05}, {"mode": "attn_quad", "alpha": 0.8}, {"mode": "exp_floor", "rate": 0.5, "floor": 0.3}, None,
          # zero-valued and partially specified blocks: a configured 0 is a value, not "unset"
          {"mode": "exp_floor", "rate": 0.5, "floor": 0.0}, {"mode": "exp_floor", "rate": 0.0, "floor": 0.0}, {"mode": "attn_quad", "alpha": 0.0}, {"mode": "exp_floor"}, {"rate": 0.5}]


def _topology(ti, w0, w1, w2):
    """Concrete topologies; weights symbolic.  Returns (nodes, edges) with edges in insertion order."""
    nodes = [("a", "alpha", []), ("b", "beta", []), ("c", "gamma", [])]
    if ti == 0:      # chain
        edges = [("e1", "a", "b", w0, "supports"), ("e2", "b", "c", w1, "associates")]
    elif ti == 1:    # cycle
        edges = [("e1", "a", "b", w0, "supports"), ("e2", "b", "c", w1, "associates"), ("e3", "c", "a", w2, "contradicts")]
    elif ti == 2:    # self-loop + chain
        edges = [("e1", "a", "a", w0, "supports"), ("e2", "a", "b", w1, "supports"), ("e3", "b", "c", w2, "supports")]
    elif ti == 3:    # parallel edges + unknown relation
        edges = [("e1", "a", "b", w0, "supports"), ("e2", "a", "b", w1, "weird_rel"), ("e3", "b", "c", w2, "associates")]
    elif ti == 5:    # hub whose out-edges are NOT contiguous in insertion order (a->b, b->c, a->c)
        edges = [("e1", "a", "b", w0, "supports"), ("e2", "b", "c", w1, "associates"), ("e3", "a", "c", w2, "supports")]
    else:            # two seeds converge (tag on c makes it a seed as well), diamond
        nodes = [("a", "alpha", []), ("b", "beta", []), ("c", "gamma", ["alpha"]), ("d", "delta", [])]
        edges = [("e1", "a", "b", w0, "supports"), ("e2", "c", "b", w1, "supports"), ("e3", "b", "d", w2, "associates")]
    return nodes, edges


def _store(nodes, edges):
    s = InMemoryGraphStore()
    s.upsert_nodes("g", [Node(id=i, label=l, attrs={"tags": list(t)}) for i, l, t in nodes])
    s.upsert_edges("g", [Edge(id=e, src=a, dst=b, weight=w, rel=r) for e, a, b, w, r in edges])
    return s


def _cfg(qb, rc, icl, relax, nb, di, perf=None):
    t1 = {"queue_budget": qb, "radius_cap": rc, "iter_cap": 50, "iter_cap_layers": icl, "relax_cap": relax, "node_budget": nb,
          "edge_type_mult": dict(MULT), "cache": {"enabled": False}}
    if DECAYS[di] is not None:
        t1["decay"] = dict(DECAYS[di])
    cfg = {"t1": t1}
    if perf:
        cfg["perf"] = perf
    return W.to_attr(cfg)


def _decay(d, di):
    dc = DECAYS[di] or {}
    if dc.get("mode", "exp_floor") == "attn_quad":
        return 1.0 / (1.0 + dc.get("alpha", 0.8) * (d * d))
    return max(dc.get("rate", 0.6) ** d, dc.get("floor", 0.05))


def _reference(nodes, edges, text, qb, rc, icl, relax, nb, di):
    """Independent re-statement of the documented spreading rule (no perf caps)."""
    t = text.lower()
    labels = []
    for nid, lab, tags in nodes:
        labels.append((nid, lab))
        for tg in tags:
            labels.append((nid, tg))
    seeds = sorted({nid for nid, lab in labels if lab and lab.lower() in t})
    if not seeds:
        return [], dict(pops=0, iters=0, propagations=0)
    out_edges = {}
    for e, a, b, w, r in edges:
        out_edges.setdefault(a, []).append((b, w, r))
    acc = {s: 1.0 for s in seeds}
    dist = {s: 0 for s in seeds}
    # seeds are pushed in label order in the implementation; priority ties are broken by node id, so order is immaterial
    pq = [(-1.0, s, 1.0) for s in seeds]
    heapq.heapify(pq)
    pops = props = layers = 0
    stop = False
    while pq and pops < qb and not stop:
        _, u, w = heapq.heappop(pq)
        pops += 1
        layer = dist.get(u, 0)
        if layer > 0 and layer > layers:
            layers = layer
            if layers > icl:
                continue
        if abs(acc.get(u, 0.0)) >= nb:
            continue
        for v, ew, rel in out_edges.get(u, []):
            d = dist[u] + 1
            if d > rc or d > icl:
                continue
            contrib = w * ew * MULT.get(rel, 0.6) * _decay(d, di)
            if abs(contrib) < EPS:
                continue
            acc[v] = acc.get(v, 0.0) + contrib
            props += 1
            if v not in dist or d < dist[v]:
                dist[v] = d
            if abs(acc[v]) < nb:
                heapq.heappush(pq, (-abs(contrib), v, contrib))
            if relax is not None and props >= relax:
                stop = True
                break
    touched = sorted(n for n, v in acc.items() if not abs(v) < EPS)
    return touched, dict(pops=pops, iters=min(layers, icl), propagations=props)


def _reach(nodes, edges, seeds, hops):
    cur, seen = set(seeds), set(seeds)
    for _ in range(max(0, hops)):
        nxt = {b for e, a, b, w, r in edges if a in cur}
        cur = nxt - seen
        seen |= nxt
    return seen


def install():
    # The T1 cache key is built with json.dumps even when the cache is off; json.dumps realises symbolic values
    # (enumerating concrete caps/budgets for ever).  The cache is disabled in every C12 obligation, so the key is unused.
    T1.stable_key = lambda obj: "KEY-UNUSED"
    W.stub_store_etag()


def _run(nodes, edges, text, cfg, slice_budgets=None):
    store = _store(nodes, edges)
    snap = copy.deepcopy(store._graphs)
    state = {"store": store, "active_graphs": ["g"]}
    ctx = NS(cfg=cfg, config=cfg, turn_id=1, agent_id="A")
    if slice_budgets is not None:
        ctx.slice_budgets = slice_budgets
    res = T1.t1_propagate(ctx, state, text)
    unchanged = store._graphs == snap
    return res, unchanged


_STUBS = ("t1.stable_key -> constant (T1 cache disabled in these obligations; the real key is exercised in C05)", "graph store etag -> counter (the real etag hashes repr(weights); unused with the cache off)")
_TARGETS = ("clematis/engine/stages/t1.py:t1_propagate", "clematis/engine/stages/t1.py:_t1_one_graph", "clematis/engine/stages/t1.py:_compute_decay", "clematis/engine/stages/t1.py:_match_keywords")


def _spread_body(ti, di, w0, w1, w2, nb, qb, rc, icl):
    nodes, edges = _topology(ti, w0, w1, w2)
    cfg = _cfg(qb, rc, icl, None, nb, di)
    res, unchanged = _run(nodes, edges, "tell me about ALPHA", cfg)
    ids = [d["id"] for d in res.graph_deltas]
    exp_ids, exp_m = _reference(nodes, edges, "tell me about ALPHA", qb, rc, icl, None, nb, di)
    m = res.metrics
    ok = unchanged and ids == sorted(set(ids)) and all(d["op"] == "upsert_node" for d in res.graph_deltas)
    ok = ok and m["pops"] <= qb and m["iters"] <= icl
    seeds = ["a", "c"] if ti == 4 else ["a"]
    ok = ok and set(ids) <= _reach(nodes, edges, seeds, min(rc, icl))
    ok = ok and ids == exp_ids and m["pops"] == exp_m["pops"] and m["iters"] == exp_m["iters"] and m["propagations"] == exp_m["propagations"]
    ok = ok and m["graphs_touched"] == 1
    return ok


_SPREAD_BOUNDS = ("3 symbolic real edge weights in [-2, 2] (negative/zero allowed); node budget symbolic real in (0, 3]; radius cap 0..3 and layer cap 0..3 "
                  "(symbolic ints; quick tier: one of them loose); default decay config; T1 cache off; exact real arithmetic; ")
_SPREAD_NOTE = ("C12.a/b differential against an independent reference of the spreading rule + budget invariants: touched ids sorted/unique, within reach of a seed in "
                "min(radius, layer) hops, pops <= queue budget, iters <= layer cap, counters equal the reference, store untouched")


@H.ob(model="realfin", quick=300, thorough=1200, targets=_TARGETS, stubs=_STUBS,
      bounds=_SPREAD_BOUNDS + "topology: cycle a->b->c->a; queue budget 0..4 (thorough 0..6)",
      split={"qb": ([0, 1, 2, 3, 4, 5, 6] if H.THOROUGH else [0, 1, 2, 3, 4])}, note=_SPREAD_NOTE)
def spread_cycle(w0: float, w1: float, w2: float, nb: float, qb: int, rc: int, icl: int) -> bool:
    """
    pre: -2.0 <= w0 <= 2.0 and -2.0 <= w1 <= 2.0 and -2.0 <= w2 <= 2.0 and 0.0 < nb <= 3.0
    pre: 0 <= qb <= 6 and 0 <= rc <= 3 and 0 <= icl <= 3
    pre: H.THOROUGH or (rc == 3 or icl == 3)
    post: _
    """
    return H.verdict(_spread_body(1, 0, w0, w1, w2, nb, qb, rc, icl))


@H.ob(model="realfin", quick=400, thorough=1500, targets=_TARGETS, stubs=_STUBS,
      bounds=_SPREAD_BOUNDS + "topology: self-loop a->a plus chain a->b->c (products of a weight with itself: non-linear); queue budget 0..1 (thorough 0..3)",
      split={"qb": ([0, 1, 2, 3] if H.THOROUGH else [0, 1])}, note=_SPREAD_NOTE, per_path=120)
def spread_selfloop(w0: float, w1: float, w2: float, nb: float, qb: int, rc: int, icl: int) -> bool:
    """
    pre: -2.0 <= w0 <= 2.0 and -2.0 <= w1 <= 2.0 and -2.0 <= w2 <= 2.0 and 0.0 < nb <= 3.0
    pre: 0 <= qb <= 3 and 0 <= rc <= 3 and 0 <= icl <= 3
    pre: H.THOROUGH or (rc == 3 or icl == 3)
    post: _
    """
    return H.verdict(_spread_body(2, 0, w0, w1, w2, nb, qb, rc, icl))


@H.ob(model="realfin", quick=300, thorough=1200, targets=_TARGETS, stubs=_STUBS,
      bounds=_SPREAD_BOUNDS + "topology: two parallel edges a->b (one with an unknown relation -> default multiplier) then b->c; queue budget 0..4",
      split={"qb": [0, 1, 2, 3, 4]}, note=_SPREAD_NOTE)
def spread_parallel(w0: float, w1: float, w2: float, nb: float, qb: int, rc: int, icl: int) -> bool:
    """
    pre: -2.0 <= w0 <= 2.0 and -2.0 <= w1 <= 2.0 and -2.0 <= w2 <= 2.0 and 0.0 < nb <= 3.0
    pre: 0 <= qb <= 4 and 0 <= rc <= 3 and 0 <= icl <= 3
    pre: H.THOROUGH or (rc == 3 or icl == 3)
    post: _
    """
    return H.verdict(_spread_body(3, 0, w0, w1, w2, nb, qb, rc, icl))


@H.ob(model="realfin", quick=400, thorough=1500, targets=_TARGETS, stubs=_STUBS,
      bounds=_SPREAD_BOUNDS + "topology: two seeds (one via a tag) converging on b, then b->d; queue budget 0..3 (thorough 0..5)",
      split={"qb": ([0, 1, 2, 3, 4, 5] if H.THOROUGH else [0, 1, 2, 3])}, note=_SPREAD_NOTE)
def spread_diamond(w0: float, w1: float, w2: float, nb: float, qb: int, rc: int, icl: int) -> bool:
    """
    pre: -2.0 <= w0 <= 2.0 and -2.0 <= w1 <= 2.0 and -2.0 <= w2 <= 2.0 and 0.0 < nb <= 3.0
    pre: 0 <= qb <= 5 and 0 <= rc <= 3 and 0 <= icl <= 3
    pre: H.THOROUGH or (rc == 3 or icl == 3)
    post: _
    """
    return H.verdict(_spread_body(4, 0, w0, w1, w2, nb, qb, rc, icl))


@H.ob(model="realfin", quick=400, thorough=1500, targets=_TARGETS, stubs=_STUBS,
      bounds=_SPREAD_BOUNDS + "topology: hub a with out-edges a->b and a->c inserted with b->c between them (a source's edges are not contiguous in the store); queue budget 0..3 (thorough 0..5)",
      split={"qb": ([0, 1, 2, 3, 4, 5] if H.THOROUGH else [0, 1, 2, 3])}, note=_SPREAD_NOTE)
def spread_hub(w0: float, w1: float, w2: float, nb: float, qb: int, rc: int, icl: int) -> bool:
    """
    pre: -2.0 <= w0 <= 2.0 and -2.0 <= w1 <= 2.0 and -2.0 <= w2 <= 2.0 and 0.0 < nb <= 3.0
    pre: 0 <= qb <= 5 and 0 <= rc <= 3 and 0 <= icl <= 3
    pre: H.THOROUGH or (rc == 3 or icl == 3)
    post: _
    """
    return H.verdict(_spread_body(5, 0, w0, w1, w2, nb, qb, rc, icl))


@H.ob(model="realfin", quick=400, thorough=900, targets=_TARGETS, stubs=_STUBS,
      bounds="cycle topology, 3 symbolic weights in [-2,2], node budget 1.5, queue budget 0..4, loose radius/layer caps; decay config by index over {absent, attn_quad, exp_floor with high floor, floor 0, rate 0 and floor 0, attn_quad with alpha 0, mode only, rate only}",
      split={"di": [1, 2, 3, 4, 5, 6, 7, 8]},
      note="C12.a decay modes: an absent t1.decay block behaves as the documented default; attn_quad and floor-dominated decay equal the reference")
def decay_modes(di: int, w0: float, w1: float, w2: float, qb: int) -> bool:
    """
    pre: 1 <= di <= 8 and 0 <= qb <= 4
    pre: -2.0 <= w0 <= 2.0 and -2.0 <= w1 <= 2.0 and -2.0 <= w2 <= 2.0
    post: _
    """
    nodes, edges = _topology(1, w0, w1, w2)
    cfg = _cfg(qb, 3, 3, None, 1.5, di)
    res, unchanged = _run(nodes, edges, "alpha", cfg)
    exp_ids, exp_m = _reference(nodes, edges, "alpha", qb, 3, 3, None, 1.5, di)
    m = res.metrics
    ok = unchanged and [d["id"] for d in res.graph_deltas] == exp_ids
    ok = ok and (m["pops"], m["iters"], m["propagations"]) == (exp_m["pops"], exp_m["iters"], exp_m["propagations"])
    return H.verdict(ok)


@H.ob(model="realfin", quick=400, thorough=1200, targets=_TARGETS, stubs=_STUBS,
      bounds="cycle topology; 3 symbolic real weights in [-2,2]; relax cap 1..4 or absent (relax_cap is not a key the validator accepts; 0 is outside the claim); per-slice scheduler caps t1_pops / t1_iters each absent or 0..3; configured queue budget 0..5 and layer cap 0..3",
      split={"has_relax": [False, True], "sp": [-1, 0, 1, 2, 3]},
      note="C12.b tighter per-slice scheduler caps and the relaxation cap bind: pops <= min(queue budget, slice pops), iters <= min(layer cap, slice iters), propagations <= relax cap; equal to the reference run under the effective caps")
def slice_caps(w0: float, w1: float, w2: float, qb: int, icl: int, relax: int, has_relax: bool, sp: int, si: int) -> bool:
    """
    pre: -2.0 <= w0 <= 2.0 and -2.0 <= w1 <= 2.0 and -2.0 <= w2 <= 2.0
    pre: 0 <= qb <= 5 and 0 <= icl <= 3 and 1 <= relax <= 4 and -1 <= sp <= 3 and -1 <= si <= 3
    post: _
    """
    nodes, edges = _topology(1, w0, w1, w2)
    rl = relax if has_relax else None
    cfg = _cfg(qb, 4, icl, rl, 1.5, 0)
    sb = {}
    if sp >= 0:
        sb["t1_pops"] = sp
    if si >= 0:
        sb["t1_iters"] = si
    res, unchanged = _run(nodes, edges, "alpha", cfg, sb)
    eff_q = qb if sp < 0 else min(qb, sp)
    eff_l = icl if si < 0 else min(icl, si)
    exp_ids, exp_m = _reference(nodes, edges, "alpha", eff_q, 4, eff_l, rl, 1.5, 0)
    m = res.metrics
    ok = unchanged and m["pops"] <= eff_q and m["iters"] <= eff_l
    if has_relax:
        ok = ok and m["propagations"] <= relax
    ok = ok and [d["id"] for d in res.graph_deltas] == exp_ids
    ok = ok and (m["pops"], m["iters"], m["propagations"]) == (exp_m["pops"], exp_m["iters"], exp_m["propagations"])
    return H.verdict(ok)


@H.ob(model="none", quick=300, thorough=900,
      targets=("clematis/engine/stages/t1.py:_match_keywords", "clematis/engine/stages/t1.py:t1_propagate"),
      bounds="input text: every string of length <= 2 (quick) / 3 (thorough) over symbolic characters; labels 'ab', 'B' and tag 'cd' (concrete); no edges",
      note="C12.c seeding: exactly the nodes whose label or tag occurs in the text as a case-insensitive substring are touched")
def seeding(text: str) -> bool:
    """
    pre: len(text) <= (3 if H.THOROUGH else 2)
    post: _
    """
    nodes = [("n1", "ab", []), ("n2", "B", []), ("n3", "zz", ["cd"]), ("n4", "", [])]
    cfg = _cfg(100, 4, 4, None, 1.5, 0)
    res, unchanged = _run(nodes, [], text, cfg)
    ids = [d["id"] for d in res.graph_deltas]

    def occurs(needle):
        n = len(needle)
        for i in range(0, len(text) - n + 1):
            if all(text[i + j].lower() == needle[j] for j in range(n)):
                return True
        return False

    exp = []
    if occurs("ab"):
        exp.append("n1")
    if occurs("b"):
        exp.append("n2")
    if occurs("cd") or occurs("zz"):
        exp.append("n3")
    return H.verdict(unchanged and ids == exp)


@H.ob(model="realfin", quick=400, thorough=900, stubs=_STUBS, targets=_TARGETS + ("clematis/engine/util/ring.py:DedupeRing.add", "clematis/engine/util/lru_det.py:DeterministicLRUSet.add"),
      bounds="cycle topology, 3 symbolic weights in [-2,2]; perf caps: frontier 0..3, visited 0..3, dedupe window 0..3 (symbolic ints; 0 = off), perf.enabled symbolic",
      split={"perf_on": [False, True]},
      note="C12.d perf caps: with perf.enabled off the caps are inert (result equals the reference); with caps on the budgets still bind, ids stay sorted/unique and within reach, the store is untouched")
def perf_caps(w0: float, w1: float, w2: float, fr: int, vis: int, dd: int, perf_on: bool, qb: int) -> bool:
    """
    pre: -2.0 <= w0 <= 2.0 and -2.0 <= w1 <= 2.0 and -2.0 <= w2 <= 2.0
    pre: 0 <= fr <= 3 and 0 <= vis <= 3 and 0 <= dd <= 3 and 0 <= qb <= 5
    post: _
    """
    nodes, edges = _topology(1, w0, w1, w2)
    perf = {"enabled": perf_on, "t1": {"caps": {"frontier": fr, "visited": vis}, "dedupe_window": dd}, "metrics": {"report_memory": False}}
    cfg = _cfg(qb, 3, 3, None, 1.5, 0, perf)
    res, unchanged = _run(nodes, edges, "alpha", cfg)
    ids = [d["id"] for d in res.graph_deltas]
    m = res.metrics
    ok = unchanged and ids == sorted(set(ids)) and m["pops"] <= qb and m["iters"] <= 3 and set(ids) <= {"a", "b", "c"}
    if not perf_on or (fr == 0 and vis == 0 and dd == 0):
        exp_ids, exp_m = _reference(nodes, edges, "alpha", qb, 3, 3, None, 1.5, 0)
        ok = ok and ids == exp_ids and m["pops"] == exp_m["pops"] and m["propagations"] == exp_m["propagations"]
    return H.verdict(ok)
