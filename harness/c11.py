"""C11 — retrieval honours scope, thresholds, caps and documented ranking.

Real code: clematis.memory.index.InMemoryIndex (_search_with_episodes, _rank_by_cosine, filters),
clematis.engine.stages.t2.core.t2_semantic, t2.quality.apply_quality, stages.hybrid.rerank_with_gel.
The cosine kernel is a stub returning per-episode SYMBOLIC scores (vectors are concrete markers).
"""
from __future__ import annotations

import copy
from types import SimpleNamespace as NS

from engine import symx as H
from harness import world as W
from clematis.engine.types import T1Result
import clematis.engine.stages.t2.core as T2CORE
from clematis.engine.stages.t2 import t2_semantic

OWN = ["A", "B", "world"]
QOWN = [None, "A", "B", "world"]
TIERS = ["exact_semantic", "cluster_semantic", "archive"]
RECENT = [0, 3, 30]
# episode timestamps (see world.EP_TS): e1 1 day, e2 5 days, e3 ~223 days before NOW
AGE_DAYS = [1, 5, 223]
QUARTER = ["2025Q1", "2025Q1", "2024Q2"]

_STUBS = ("memory.index._cosine -> symbolic score per stored vector (cluster centroids: symbolic score per cluster)", "t2.core.stable_key -> constant (stage cache off; the real key is exercised in C05)",
          "t2.core.np.mean/np.max -> pure-python equivalents (numpy realises symbolic floats)")


def install():
    T2CORE.stable_key = lambda obj: "KEY-UNUSED"


def pick(lst, i):
    """Concrete selection by a symbolic index (if-chain): the result is a plain Python object, not a symbolic ITE."""
    for j, v in enumerate(lst):
        if i == j:
            return v
    raise IndexError(i)


def _expected_rank(cands, k, thr):
    """cands: list of (id, score). Documented: score >= threshold, order (-score, id), first k."""
    ok = [(i, s) for i, s in cands if s >= thr]
    ok.sort(key=lambda t: (-t[1], t[0]))
    return ok[: max(k, 0)] if k >= 0 else ok[:k]


_IT = ("clematis/memory/index.py:InMemoryIndex._search_with_episodes", "clematis/memory/index.py:InMemoryIndex._rank_by_cosine", "clematis/memory/index.py:InMemoryIndex._filter_owner",
       "clematis/memory/index.py:InMemoryIndex._filter_recent", "clematis/memory/index.py:InMemoryIndex._filter_quarters")


def _search(owners, clusters, scores, qowner, k, tier, hints, c01=0.5):
    idx = W.make_index(owners=owners, clusters=clusters)
    q = W.MarkerEncoder().encode(["x"])[0]
    with W.CosineStub(scores, extra={1.5: c01}):
        hits = idx.search_tiered(qowner, q, k, tier, dict(hints))
    return [(h.id, h.score, h.owner) for h in hits]


def _check(got, exp, k, thr, qowner):
    ok = [(i, s) for i, s, _ in got] == exp
    ok = ok and len(got) <= max(k, 0) and len({i for i, _, _ in got}) == len(got)
    for i, s, o in got:
        ok = ok and s >= thr and (qowner is None or o == qowner)
    return ok


@H.ob(model="realfin", quick=300, thorough=900, targets=_IT, stubs=_STUBS[:1],
      bounds="exact tier; 3 episodes, owner of each by symbolic index over {A,B,world}, query owner over {None,A,B,world}, recency window over {0,3,30} days (ages 1/5/223 days), scores concrete distinct, threshold symbolic, k 0..4",
      split={"qo": [0, 1, 2, 3], "k": [0, 1, 4]},
      note="C11.a exact tier, scope and window: only episodes of the queried owner inside the recency window are returned (owner None = all), at most k, >= threshold, ordered by score")
def exact_scope(o0: int, o1: int, o2: int, qo: int, rd: int, thr: float, k: int) -> bool:
    """
    pre: 0 <= o0 <= 2 and 0 <= o1 <= 2 and 0 <= o2 <= 2 and 0 <= qo <= 3 and 0 <= rd <= 2 and 0 <= k <= 4
    post: _
    """
    owners = [pick(OWN, o0), pick(OWN, o1), pick(OWN, o2)]
    qowner = pick(QOWN, qo)
    recent = pick(RECENT, rd)
    scores = [0.7, 0.9, 0.8]
    got = _search(owners, (None, None, None), scores, qowner, k, "exact_semantic", {"sim_threshold": thr, "now": W.NOW, "recent_days": recent})
    pool = [i for i in range(3) if (qowner is None or owners[i] == qowner) and (recent <= 0 or AGE_DAYS[i] <= recent)]
    exp = _expected_rank([("e%d" % (i + 1), scores[i]) for i in pool], k, thr)
    return H.verdict(_check(got, exp, k, thr, qowner))


@H.ob(model="realfin", quick=300, thorough=900, targets=_IT, stubs=_STUBS[:1],
      bounds="exact and archive tiers; 3 visible episodes with symbolic finite scores (ties, zero, negative allowed) and symbolic threshold; k 0..4; archive quarter filter on/off",
      split={"k": [0, 1, 2, 3, 4], "arch": [False, True]},
      note="C11.a ranking: results are exactly the episodes with score >= threshold in (-score, id) order cut at k (duplicates impossible)")
def rank_order(s0: float, s1: float, s2: float, thr: float, k: int, arch: bool, aq: bool) -> bool:
    """
    pre: 0 <= k <= 4
    post: _
    """
    scores = [s0, s1, s2]
    hints = {"sim_threshold": thr, "now": W.NOW, "recent_days": 0}
    if aq:
        hints["archive_quarters"] = ["2025Q1"]
    got = _search(["A", "A", "A"], (None, None, None), scores, "A", k, "archive" if arch else "exact_semantic", hints)
    pool = [i for i in range(3) if not (arch and aq) or QUARTER[i] == "2025Q1"]
    exp = _expected_rank([("e%d" % (i + 1), scores[i]) for i in pool], k, thr)
    return H.verdict(_check(got, exp, k, thr, "A"))


@H.ob(model="realfin", quick=400, thorough=900, targets=_IT + ("clematis/memory/index.py:_stable_cluster_id",), stubs=_STUBS[:1],
      bounds="cluster tier; clusters {e1,e2} (symbolic centroid score) and {e3}, or three singletons; owners A,A,B with query owner None or A; symbolic scores and threshold; clusters_top_m 1..2; k 1..3",
      split={"k": [1, 3], "m": [1, 2], "cl": [0, 1]},
      note="C11.a cluster tier: clusters are formed over the VISIBLE episodes only, the top-m clusters by (centroid score, id) are searched, results ranked as documented and never owned by another owner")
def cluster_tier(s0: float, s1: float, s2: float, c01: float, thr: float, k: int, m: int, cl: int, scoped: bool) -> bool:
    """
    pre: 1 <= k <= 3 and 1 <= m <= 2 and 0 <= cl <= 1
    post: _
    """
    import hashlib

    owners = ["A", "A", "B"]
    clusters = ("c1", "c1", "c2") if cl == 0 else (None, None, None)
    scores = [s0, s1, s2]
    qowner = "A" if scoped else None
    got = _search(owners, clusters, scores, qowner, k, "cluster_semantic", {"sim_threshold": thr, "now": W.NOW, "clusters_top_m": m}, c01)
    vis = [i for i in range(3) if qowner is None or owners[i] == qowner]
    groups = {}
    for i in vis:
        cid = clusters[i] if clusters[i] else "c:" + hashlib.md5(("e%d" % (i + 1)).encode()).hexdigest()[:8]
        groups.setdefault(cid, []).append(i)
    cs = sorted(((cid, (c01 if len(mem) == 2 else scores[mem[0]]), mem) for cid, mem in groups.items()), key=lambda t: (-t[1], t[0]))
    pool = sorted(i for _, _, mem in cs[:m] for i in mem)
    exp = _expected_rank([("e%d" % (i + 1), scores[i]) for i in pool], k, thr)
    return H.verdict(_check(got, exp, k, thr, qowner))


def _t2_ctx(k, thr, tiers, scope, a, b, g, resid, agent="A", slice_k=None, recent=30):
    cfg = {"t2": {"backend": "inmemory", "k_retrieval": k, "sim_threshold": thr, "tiers": list(tiers), "exact_recent_days": recent, "clusters_top_m": 2, "owner_scope": scope,
                  "ranking": {"alpha_sim": a, "beta_recency": b, "gamma_importance": g}, "residual_cap_per_turn": resid, "cache": {"enabled": False}},
           "t1": {"cache": {"enabled": False}}}
    ctx = W.make_ctx(cfg, turn_id=2, agent=agent)
    if slice_k is not None:
        ctx.slice_budgets = {"t2_k": slice_k}
    return ctx


TIERSETS = [["exact_semantic", "cluster_semantic", "archive"], ["exact_semantic"], ["archive", "exact_semantic"], ["cluster_semantic"]]
SCOPE = ["any", "agent", "world"]


_T2T = ("clematis/engine/stages/t2/core.py:t2_semantic", "clematis/engine/stages/t2/state.py:build_label_map", "clematis/engine/stages/t2/helpers.py:owner_for_query", "clematis/memory/index.py:InMemoryIndex.search_tiered")
LABELS = {"alpha": "a", "beta": "b", "gamma": "c"}


def _run_t2(owners, scores, ctx, ts=None):
    W.reset_globals()
    state = W.make_state(index=W.make_index(owners=owners, ts=ts))
    before = copy.deepcopy(state["store"]._graphs)
    with W.CosineStub(scores), W.NumpyShim():
        res = t2_semantic(ctx, state, "beta", T1Result(graph_deltas=[], metrics={}))
    W.reset_globals()
    return res, state["store"]._graphs == before


@H.ob(model="realfin", quick=300, thorough=900, targets=_T2T, stubs=_STUBS,
      bounds="memory M3, owner of each episode by symbolic index over {A,B,world}; owner scope any/agent(A)/world and tier list (4 lists) one job each; scores concrete distinct, threshold symbolic, k_retrieval 1..3",
      split={"scope": [0, 1, 2], "ts": [0, 1, 2, 3]},
      note="C11.b scope through the whole tier walk: every hit is visible under the configured owner scope (agent scope never yields another owner's memory), hits are distinct, <= k, >= threshold, and exactly the visible episodes that pass the tier rules are found")
def t2_scope(o0: int, o1: int, o2: int, thr: float, k: int, scope: int, ts: int) -> bool:
    """
    pre: 0 <= o0 <= 2 and 0 <= o1 <= 2 and 0 <= o2 <= 2 and 1 <= k <= 3 and 0 <= scope <= 2 and 0 <= ts <= 3
    post: _
    """
    owners = [pick(OWN, o0), pick(OWN, o1), pick(OWN, o2)]
    scores = [0.7, 0.9, 0.8]
    ctx = _t2_ctx(k, thr, TIERSETS[ts], SCOPE[scope], 1.0, 0.0, 0.0, 8)
    res, unchanged = _run_t2(owners, scores, ctx)
    ids = [r.id for r in res.retrieved]
    qowner = None if scope == 0 else ("A" if scope == 1 else "world")
    ok = unchanged and len(ids) <= k and len(set(ids)) == len(ids)
    for r in res.retrieved:
        i = int(r.id[1:]) - 1
        ok = ok and (qowner is None or owners[i] == qowner) and scores[i] >= thr
    # completeness (tier lists 0,2,3 reach every visible episode; list 1 = exact tier only: 30-day window)
    vis = [i for i in range(3) if (qowner is None or owners[i] == qowner) and scores[i] >= thr and (ts != 1 or AGE_DAYS[i] <= 30)]
    reach = min(len(vis), 2) if ts == 3 else len(vis)  # cluster tier alone searches only the top-m (= 2) singleton clusters
    ok = ok and len(ids) == min(k, reach) and set(ids) <= {"e%d" % (i + 1) for i in vis}
    return H.verdict(ok)


@H.ob(model="realfin", quick=300, thorough=900, targets=_T2T, stubs=_STUBS,
      bounds="memory M3 all owned by A (scope any); symbolic finite scores, threshold and ranking weights alpha/beta/gamma in [0,1]; importance 0.5; episode ages 1 / 400 / 800 days (two beyond the 365-day horizon); k_retrieval 1..3 (one job each); default tier list",
      split={"k": [1, 2, 3]},
      note="C11.b ranking: hits are ordered by alpha*cos_norm + beta*recency + gamma*importance (documented) with id tie-break; the score reported for a hit is its cosine")
def t2_rank(s0: float, s1: float, s2: float, thr: float, a: float, b: float, g: float, k: int) -> bool:
    """
    pre: 0.0 <= a <= 1.0 and 0.0 <= b <= 1.0 and 0.0 <= g <= 1.0 and 1 <= k <= 3
    post: _
    """
    scores = [s0, s1, s2]
    ctx = _t2_ctx(k, thr, TIERSETS[0], "any", a, b, g, 8)
    # ages 1, 400 and 800 days: two episodes lie beyond the 365-day recency horizon (recency clamps at 0)
    ages = [1, 400, 800]
    res, unchanged = _run_t2(["A", "A", "A"], scores, ctx, ts=["2025-01-09T00:00:00Z", "2023-12-07T00:00:00Z", "2022-11-02T00:00:00Z"])
    ids = [r.id for r in res.retrieved]
    ok = unchanged and len(ids) <= k and len(set(ids)) == len(ids)
    comb = {}
    for r in res.retrieved:
        i = int(r.id[1:]) - 1
        ok = ok and scores[i] >= thr and r.score == scores[i]
        rec = max(0.0, min(1.0, 1.0 - ages[i] / 365.0))
        comb[r.id] = a * ((scores[i] + 1.0) / 2.0) + b * rec + g * 0.5
    for x, y in zip(ids, ids[1:]):
        ok = ok and (comb[x] > comb[y] or (comb[x] == comb[y] and x < y))
    return H.verdict(ok)


@H.ob(model="none", quick=300, thorough=600, targets=_T2T, stubs=_STUBS,
      bounds="memory M3 (scores concrete, all visible), k_retrieval 1..3, residual cap unbounded int (0 and negatives included), per-slice cap t2_k absent or unbounded int",
      split={"k": [1, 2, 3], "has_slice": [False, True]},
      note="C11.b residual nudges: only existing nodes whose label occurs in a hit that was actually USED (after the per-slice cap), sorted, unique, at most max(residual cap, 0); k_used = min(slice cap, hits)")
def t2_residual(k: int, resid: int, sk: int, has_slice: bool) -> bool:
    """
    pre: 1 <= k <= 3
    post: _
    """
    scores = [0.7, 0.9, 0.8]
    ctx = _t2_ctx(k, 0.1, TIERSETS[0], "any", 1.0, 0.0, 0.0, resid, slice_k=(sk if has_slice else None))
    res, unchanged = _run_t2(["A", "A", "A"], scores, ctx)
    ids = [r.id for r in res.retrieved]
    m = res.metrics
    cap = (sk if sk > 0 else 0) if has_slice else len(ids)
    used = ids[:cap]
    ok = unchanged and m["k_returned"] == len(ids) and m["k_used"] == len(used)
    allowed = set()
    for rid in used:
        t = W.EP_TEXT[int(rid[1:]) - 1]
        for lb, nid in LABELS.items():
            if lb in t:
                allowed.add(nid)
    rn = [d["id"] for d in res.graph_deltas_residual]
    ok = ok and set(rn) <= allowed and rn == sorted(set(rn)) and len(rn) <= (resid if resid > 0 else 0)
    ok = ok and all(d["op"] == "upsert_node" for d in res.graph_deltas_residual) and m["k_residual"] == len(rn)
    if resid >= 3:
        ok = ok and set(rn) == allowed
    return H.verdict(ok)


# ----------------------------------------------------------------------------- C11.c rerank layers only permute
from clematis.engine.types import EpisodeRef  # noqa: E402
from clematis.engine.stages.hybrid import rerank_with_gel  # noqa: E402
from clematis.engine.stages.t2.quality import apply_quality  # noqa: E402


def _gel_edge(a, b, w):
    k = f"{a}→{b}" if a <= b else f"{b}→{a}"
    return k, {"id": k, "src": min(a, b), "dst": max(a, b), "weight": w, "rel": "coact"}


@H.ob(model="realfin", quick=400, thorough=900,
      targets=("clematis/engine/stages/hybrid.py:rerank_with_gel", "clematis/engine/stages/hybrid.py:_edge_weight", "clematis/engine/stages/hybrid.py:_degree"),
      bounds="3 hits with symbolic finite similarities; GEL edges e1-e2, e1-e3, e2-e3 with symbolic weights in [-1,1]; lambda_graph, edge_threshold, max_bonus symbolic in [0,1], damping 0.5; walk hops 1/2, degree norm none/invdeg, anchor_top_m 1..3, k_max 1..3 (one job per hops x degree norm)",
      split={"hops": [1, 2], "invdeg": [False, True]},
      note="C11.c hybrid graph rerank only permutes: same multiset of hits, the top-1 hit stays first, items beyond k_max keep their place, input list not mutated; disabled/edge-less calls return the input order")
def hybrid_permutes(s0: float, s1: float, s2: float, w01: float, w02: float, w12: float, lam: float, thr: float, mb: float, hops: int, invdeg: bool, am: int, kmax: int, enabled: bool) -> bool:
    """
    pre: -1.0 <= w01 <= 1.0 and -1.0 <= w02 <= 1.0 and -1.0 <= w12 <= 1.0
    pre: 0.0 <= lam <= 1.0 and 0.0 <= thr <= 1.0 and 0.0 <= mb <= 1.0 and 1 <= hops <= 2 and 1 <= am <= 3 and 1 <= kmax <= 3
    post: _
    """
    hyb = {"enabled": enabled, "use_graph": True, "anchor_top_m": am, "walk_hops": hops, "edge_threshold": thr, "lambda_graph": lam,
           "damping": 0.5, "degree_norm": "invdeg" if invdeg else "none", "max_bonus": mb, "k_max": kmax}
    cfg = W.to_attr({"t2": {"hybrid": hyb}})
    ctx = NS(cfg=cfg, config=cfg)
    edges = dict([_gel_edge("e1", "e2", w01), _gel_edge("e1", "e3", w02), _gel_edge("e2", "e3", w12)])
    state = {"graph": {"nodes": {}, "edges": edges}}
    items = [EpisodeRef(id="e1", owner="A", score=s0, text="t1"), EpisodeRef(id="e2", owner="A", score=s1, text="t2"), EpisodeRef(id="e3", owner="A", score=s2, text="t3")]
    before = list(items)
    out, m = rerank_with_gel(ctx, state, items)
    ok = items == before and sorted(x.id for x in out) == ["e1", "e2", "e3"] and len(out) == 3
    ok = ok and out[0].id == "e1"
    for i in range(kmax, 3):
        ok = ok and out[i].id == items[i].id
    if not enabled:
        ok = ok and [x.id for x in out] == ["e1", "e2", "e3"] and m == {"hybrid_used": False}
    return H.verdict(ok)


TEXTS = ["alpha beta gamma", "alpha beta gamma delta", "zeta eta theta", "alpha zeta"]


@H.ob(model="realfin", quick=400, thorough=900,
      targets=("clematis/engine/stages/t2/quality.py:apply_quality", "clematis/engine/stages/t2/quality_ops.py:fuse", "clematis/engine/stages/t2/quality_ops.py:maybe_apply_mmr"),
      bounds="4 hits (2 near-duplicate texts, 2 distinct) in a symbolic initial order (4 permutations quick / all 24 thorough); quality.enabled, mmr.enabled, hybrid.enabled symbolic flags; fusion alpha and MMR lambda symbolic reals in [0,1]; MMR k absent or 1..4",
      split={"q_on": [False, True], "mmr_on": [False, True]},
      note="C11.c lexical fusion and MMR only permute the retrieved set (same ids, no loss, no duplicates); with the quality gate off the order is untouched")
def quality_permutes(perm: int, q_on: bool, mmr_on: bool, alpha: float, lam: float, mk: int) -> bool:
    """
    pre: 0 <= perm < (24 if H.THOROUGH else 4) and 0.0 <= alpha <= 1.0 and 0.0 <= lam <= 1.0 and 0 <= mk <= 4
    pre: H.THOROUGH or mk == 0 or mk == 2
    post: _
    """
    import itertools

    order = pick(list(itertools.permutations(range(4))), perm)
    items = [EpisodeRef(id="e%d" % (i + 1), owner="A", score=0.9 - 0.1 * j, text=TEXTS[i]) for j, i in enumerate(order)]
    mmr = {"enabled": mmr_on, "lambda": lam}
    if mk > 0:
        mmr["k"] = mk
    q = {"enabled": q_on, "fusion": {"mode": "score_interp", "alpha_semantic": alpha}, "mmr": mmr, "lexical": {"bm25_k1": 1.2, "bm25_b": 0.75, "stopwords": "en-basic"}}
    cfg_root = {"t2": {"quality": q, "hybrid": {"enabled": False}}, "perf": {"enabled": False}}
    ctx = NS(cfg=W.to_attr(cfg_root), config=W.to_attr(cfg_root))
    before = [x.id for x in items]
    try:
        out = apply_quality(ctx, {}, list(items), "alpha beta", cfg_root, cfg_root["t2"])
    except Exception:
        return False
    ids = [x.id for x in out[0]]
    ok = sorted(ids) == sorted(before) and len(ids) == 4 and [x.id for x in items] == before
    if not q_on and not mmr_on:
        ok = ok and ids == before
    return H.verdict(ok)
