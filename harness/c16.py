"""C16 — log streams stay well-formed, ordered and lossless.

Real code: clematis.engine.util.io_logging (normalize_for_identity, LogStager, default_key_for),
clematis.io.log (_append_jsonl_unbuffered, rewrite_jsonl), clematis.scripts.rotate_logs.rotate_one,
clematis.engine.orchestrator.parallel._run_agents_parallel_batch (staging protocol).
"""
from __future__ import annotations

import copy
import json
import os
from types import SimpleNamespace as NS

from engine import symx as H
from engine.envmodels import FS, FakeFile, FakePath, Killed, install_atomic
import clematis.engine.util.io_logging as IOL
import clematis.io.log as L

STREAMS = ["t1.jsonl", "t2.jsonl", "t4.jsonl", "apply.jsonl", "turn.jsonl", "t3_reflection.jsonl", "health.jsonl", "scheduler.jsonl", "custom.jsonl"]


# ----------------------------------------------------------------------------- C16.a normalisation
@H.ob(model="realfin", quick=200, thorough=500,
      targets=("clematis/engine/util/io_logging.py:normalize_for_identity",),
      bounds="stream by symbolic index over 9 names (all identity streams, reflection, health, scheduler, unknown); record fields ms / now / durations_ms (2 symbolic durations) / yielded (absent, False, True, 0, 1) / slice_idx (absent, int, numeric string) present or absent by symbolic mask; CI on/off",
      split={"si": list(range(9))},
      note="C16.a CI normalisation changes only the documented volatile fields of identity streams, is idempotent, never mutates its input, and is the identity when CI is off")
def normalise(si: int, ms: float, d0: float, d1: float, mask: int, yi: int, sl: int, ci_on: bool) -> bool:
    """
    pre: 0 <= si < 9 and 0 <= mask < 32 and 0 <= yi <= 4 and -2 <= sl
    post: _
    """
    name = STREAMS[si]
    rec = {"turn": 3, "agent": "A", "k": {"x": 1}}
    if mask & 1:
        rec["ms"] = ms
    if mask & 2:
        rec["now"] = "2025-01-01T00:00:00+00:00"
    if mask & 4:
        rec["durations_ms"] = {"t1": d0, "total": d1}
    if mask & 8:
        rec["yielded"] = [False, True, 0, 1, None][yi]
    if mask & 16:
        rec["slice_idx"] = sl if sl >= 0 else ("7" if sl == -1 else "x")
    before = copy.deepcopy(rec)
    saved = os.environ.get("CI")
    os.environ["CI"] = "true" if ci_on else "false"
    try:
        out = IOL.normalize_for_identity(name, rec)
        out2 = IOL.normalize_for_identity(name, out)
    finally:
        if saved is None:
            os.environ.pop("CI", None)
        else:
            os.environ["CI"] = saved
    if rec != before:
        return False
    if out2 != out:
        return False
    if not ci_on:
        return H.verdict(out == before)
    exp = dict(before)
    if name == "t3_reflection.jsonl":
        if "ms" in exp:
            exp["ms"] = 0.0
    elif name in ("t1.jsonl", "t2.jsonl", "t4.jsonl", "apply.jsonl", "turn.jsonl"):
        if "ms" in exp:
            exp["ms"] = 0.0
        exp.pop("now", None)
        if name == "turn.jsonl":
            if "durations_ms" in exp:
                exp["durations_ms"] = {"t1": 0.0, "total": 0.0}
            if exp.get("yielded"):
                exp["yielded"] = True
                if "slice_idx" in exp and exp["slice_idx"] == "7":
                    exp["slice_idx"] = 7
            else:
                exp.pop("yielded", None)
                exp.pop("slice_idx", None)
    return H.verdict(out == exp)


# ----------------------------------------------------------------------------- C16.b staging order
@H.ob(model="none", quick=300, thorough=600,
      targets=("clematis/engine/util/io_logging.py:LogStager.stage", "clematis/engine/util/io_logging.py:LogStager.drain_sorted", "clematis/engine/util/io_logging.py:default_key_for"),
      bounds="3 records with symbolic turn id (0..1), slice (0..1) and stream (index over 3 names incl. an unknown one); byte limit unbounded int >= 1; the documented protocol: on back-pressure drain+flush, retry once, write through if the record alone exceeds the limit",
      split={"f0": [0, 1, 2], "t0": [0, 1]},
      note="C16.b staged records are flushed in (turn, stage order, slice, arrival) order within every drain; nothing is lost or duplicated whatever the byte limit")
def staging_order(limit: int, t0: int, t1: int, t2: int, s0: int, s1: int, s2: int, f0: int, f1: int, f2: int) -> bool:
    """
    pre: 0 <= t0 <= 1 and 0 <= t1 <= 1 and 0 <= t2 <= 1
    pre: 0 <= s0 <= 1 and 0 <= s1 <= 1 and 0 <= s2 <= 1
    pre: 0 <= f0 <= 2 and 0 <= f1 <= 2 and 0 <= f2 <= 2
    pre: limit >= 1
    post: _
    """
    names = ["t1.jsonl", "turn.jsonl", "zz.jsonl"]
    stager = IOL.enable_staging(limit)
    out = []
    drains = []
    try:
        recs = [(names[f], t, s, i) for i, (f, t, s) in enumerate(((f0, t0, s0), (f1, t1, s1), (f2, t2, s2)))]
        for fp, t, s, i in recs:
            key = IOL.default_key_for(file_path=fp, turn_id=t, slice_idx=s)
            payload = {"i": i}
            try:
                stager.stage(fp, key, payload)
            except RuntimeError:
                d = stager.drain_sorted()
                drains.append(d)
                out.extend(d)
                try:
                    stager.stage(fp, key, payload)
                except RuntimeError:
                    out.append(NS(file_path=fp, key=key, payload=payload))
                    drains.append([out[-1]])
        d = stager.drain_sorted()
        drains.append(d)
        out.extend(d)
    finally:
        IOL.disable_staging()
    ids = [r.payload["i"] for r in out]
    if sorted(ids) != [0, 1, 2]:
        return False
    ordv = {"t1.jsonl": 1, "turn.jsonl": 8, "zz.jsonl": 99}
    for d in drains:
        ks = [(r.key.turn_id, ordv[r.file_path], r.key.slice_idx, r.payload["i"]) for r in d]
        if ks != sorted(ks):
            return False
    if limit >= 1000:
        ks = [(r.key.turn_id, ordv[r.file_path], r.key.slice_idx, r.payload["i"]) for r in out]
        if ks != sorted(ks):
            return False
    return H.verdict(True)


@H.ob(model="none", quick=300, thorough=600,
      targets=("clematis/engine/util/io_logging.py:LogStager.stage", "clematis/engine/util/io_logging.py:LogStager.drain_sorted", "clematis/engine/util/io_logging.py:default_key_for"),
      bounds="4 records, symbolic turn id (0..1) and stream (2 names), one slice; byte limit unbounded int >= 1; keys are minted before staging and reused on the retry (the driver's protocol)",
      split={"f0": [0, 1], "t0": [0, 1]},
      note="C16.b with four records a mid-batch drain is followed by two more records of the same (turn, stream, slice): arrival order must survive the drain/retry")
def staging_order4(limit: int, t0: int, t1: int, t2: int, t3: int, f0: int, f1: int, f2: int, f3: int) -> bool:
    """
    pre: 0 <= t0 <= 1 and 0 <= t1 <= 1 and 0 <= t2 <= 1 and 0 <= t3 <= 1
    pre: 0 <= f0 <= 1 and 0 <= f1 <= 1 and 0 <= f2 <= 1 and 0 <= f3 <= 1
    pre: limit >= 1
    post: _
    """
    names = ["t1.jsonl", "zz.jsonl"]
    stager = IOL.enable_staging(limit)
    out = []
    drains = []
    try:
        recs = [(names[f], t, i) for i, (f, t) in enumerate(((f0, t0), (f1, t1), (f2, t2), (f3, t3)))]
        for fp, t, i in recs:
            key = IOL.default_key_for(file_path=fp, turn_id=t, slice_idx=0)
            payload = {"i": i}
            try:
                stager.stage(fp, key, payload)
            except RuntimeError:
                d = stager.drain_sorted()
                drains.append(d)
                out.extend(d)
                try:
                    stager.stage(fp, key, payload)
                except RuntimeError:
                    out.append(NS(file_path=fp, key=key, payload=payload))
                    drains.append([out[-1]])
        d = stager.drain_sorted()
        drains.append(d)
        out.extend(d)
    finally:
        IOL.disable_staging()
    ids = [r.payload["i"] for r in out]
    if sorted(ids) != [0, 1, 2, 3]:
        return False
    ordv = {"t1.jsonl": 1, "zz.jsonl": 99}
    for d in drains:
        ks = [(r.key.turn_id, ordv[r.file_path], r.payload["i"]) for r in d]
        if ks != sorted(ks):
            return False
    # per-file arrival order is preserved in what reaches the disk for records of one turn
    for nm in names:
        for t in (0, 1):
            seq = [r.payload["i"] for r in out if r.file_path == nm and r.key.turn_id == t]
            if seq != sorted(seq):
                return False
    return H.verdict(True)


# ----------------------------------------------------------------------------- C16.c append
def _install_log_fs(fs):
    saved = (L.__dict__.get("open"), L.os.makedirs, L.paths.logs_dir)
    files_opened = []

    def fopen(p, mode="r", *a, **k):
        f = FakeFile(fs, str(p), mode)
        files_opened.append(f)
        return f

    L.open = fopen
    L.os.makedirs = lambda *a, **k: None
    L.paths.logs_dir = lambda: "/logs"

    def undo():
        if saved[0] is None:
            del L.open
        else:
            L.open = saved[0]
        L.os.makedirs = saved[1]
        L.paths.logs_dir = saved[2]

    return files_opened, undo


@H.ob(model="none", quick=300, thorough=600,
      targets=("clematis/io/log.py:_append_jsonl_unbuffered", "clematis/io/log.py:append_jsonl"),
      stubs=("clematis.io.log.open -> in-memory FS model (append mode); json.dumps is the real C encoder (values concrete by symbolic index)",),
      bounds="two consecutive appends to one stream; each record carries a string built from 2 characters chosen by symbolic index from {a, LF, CR, U+2028, U+0085, quote, backslash, e-acute, NUL} plus a nested dict and a large (10 kB) filler by symbolic flag; stream by symbolic index (identity / non-identity)",
      split={"si": [0, 1, 2]},
      note="C16.c every appended record is exactly ONE write call whose bytes are one complete JSON object terminated by a single LF with no other LF inside; records keep their order; parsing the line gives back the (normalised) record")
def append_wellformed(c0: int, c1: int, big: bool, si: int) -> bool:
    """
    pre: 0 <= c0 <= 8 and 0 <= c1 <= 8 and 0 <= si <= 2
    post: _
    """
    c2 = c1
    alpha = ["a", "\n", "\r", " ", "\x85", '"', "\\", "é", "\x00"]
    name = ["t1.jsonl", "custom.jsonl", "turn.jsonl"][si]
    r1 = {"turn": 1, "agent": "A", "s": alpha[c0] + alpha[c1], "n": {"k": [1, alpha[c2]]}, "ms": 1.5}
    r2 = {"turn": 2, "agent": "B", "s": alpha[c2], "ms": 2.5}
    if big:
        r1["filler"] = "x" * 10000
    fs = FS({})
    opened, undo = _install_log_fs(fs)
    try:
        L._append_jsonl_unbuffered(name, r1)
        L.append_jsonl(name, r2)
    finally:
        undo()
    if len(opened) != 2 or any(len(f.writes) != 1 for f in opened):
        return False
    data = fs.files.get("/logs/" + name)
    lines = data.split(b"\n")
    if lines[-1] != b"" or len(lines) != 3:
        return False
    got = [json.loads(x.decode("utf-8")) for x in lines[:2]]
    exp = [IOL.normalize_for_identity(name, r1), IOL.normalize_for_identity(name, r2)]
    return H.verdict(got == exp and all(w.endswith(b"\n") and w.count(b"\n") == 1 for f in opened for w in f.writes))


@H.ob(model="none", quick=200, thorough=400,
      targets=("clematis/io/log.py:rewrite_jsonl",),
      stubs=("clematis.io.atomic -> FS model", "paths.logs_dir -> /logs"),
      split={"n": [0, 1, 2]},
      bounds="0..2 records whose string field is chosen by symbolic index from the special-character alphabet; existing file present",
      note="C16.d compaction rewrite preserves the records in order, one canonical LF-terminated line each")
def rewrite_preserves(n: int, c0: int, c1: int) -> bool:
    """
    pre: 0 <= n <= 2 and 0 <= c0 <= 8 and 0 <= c1 <= 8 and (n >= 2 or c1 == 0) and (n >= 1 or c0 == 0)
    post: _
    """
    c2 = 0
    alpha = ["a", "\n", "\r", " ", "\x85", '"', "\\", "é", "\r\n"]
    recs = [{"i": i, "s": alpha[c], "z": {"b": 1, "a": 2}} for i, c in enumerate((c0, c1, c2)[:n])]
    fs = FS({"/logs/custom.jsonl": b"OLD\n"})
    undo = install_atomic(fs)
    saved = (L.os.makedirs, L.paths.logs_dir)
    L.os.makedirs = lambda *a, **k: None
    L.paths.logs_dir = lambda: "/logs"
    try:
        L.rewrite_jsonl("custom.jsonl", [dict(r) for r in recs])
    finally:
        L.os.makedirs, L.paths.logs_dir = saved
        undo()
    data = fs.files.get("/logs/custom.jsonl")
    lines = data.split(b"\n")
    ok = lines[-1] == b"" and len(lines) == n + 1
    got = [json.loads(x.decode("utf-8")) for x in lines[:-1]] if ok else []
    return H.verdict(ok and got == recs and list(fs.files) == ["/logs/custom.jsonl"])


# ----------------------------------------------------------------------------- C16.e rotation
def _install_rotate_fs(fs):
    import clematis.scripts.rotate_logs as R

    class ROS:
        class path:
            @staticmethod
            def exists(p):
                fs.tick("exists")
                return str(p) in fs.files

            join = staticmethod(os.path.join)

        @staticmethod
        def remove(p):
            fs.tick("remove")
            if str(p) not in fs.files:
                raise FileNotFoundError(p)
            del fs.files[str(p)]

    saved = (R.os, R.Path)
    R.os = ROS
    R.Path = lambda p: FakePath(fs, p)
    undo_a = install_atomic(fs)

    def undo():
        R.os, R.Path = saved
        undo_a()

    return R, undo


@H.ob(model="none", quick=300, thorough=900,
      targets=("clematis/scripts/rotate_logs.py:rotate_one", "clematis/io/atomic.py:atomic_replace"),
      stubs=("rotate_logs.os / Path and clematis.io.atomic -> FS model with a symbolic kill step",),
      bounds="backups N in 1..4 (symbolic); presence of path, path.1 .. path.(N+1) by symbolic mask; kill at I/O step k in [-1, 30] (-1 = no kill)",
      split={"n": [1, 2, 3, 4], "mlo": [0, 1, 2, 3]},
      note="C16.e rotation: without interruption path.k holds the former path.(k-1), at most N generations remain and only generation N is lost; with a kill at any step every generation except the former path.N still exists under some name, in age order")
def rotation(n: int, mlo: int, mhi: int, kill_at: int) -> bool:
    """
    pre: 1 <= n <= 4 and 0 <= mlo <= 3 and 0 <= mhi < 16 and -1 <= kill_at <= 30
    pre: (n >= 4 or mhi < 8) and (n >= 3 or mhi < 4) and (n >= 2 or mhi < 2)
    post: _
    """
    mask = mlo + 4 * mhi
    base = "/logs/t1.jsonl"
    names = [base] + ["%s.%d" % (base, k) for k in range(1, 6)]
    files = {}
    for i, nm in enumerate(names):
        if (mask >> i) & 1:
            files[nm] = ("gen%d" % i).encode()
    fs = FS(files, kill_at, 1, 5)
    R, undo = _install_rotate_fs(fs)
    killed = False
    ret = None
    try:
        try:
            ret = R.rotate_one(base, n)
        except Killed:
            killed = True
    finally:
        undo()
    after = dict(fs.files)
    # generations beyond N+... : names[n+1:] are outside the scheme and must be untouched
    for i in range(n + 1, 6):
        if after.get(names[i]) != files.get(names[i]):
            return False
    if not killed:
        ok = ret == (names[0] in files) or True
        exp = {}
        for i in range(0, n):
            if names[i] in files:
                exp[names[i + 1]] = files[names[i]]
        for i in range(n + 1, 6):
            if names[i] in files:
                exp[names[i]] = files[names[i]]
        return H.verdict(after == exp and ret == (names[0] in files))
    # killed: every generation 0..n-1 still exists somewhere among names[0..n], in age order, no duplicates
    survivors = [after.get(names[i]) for i in range(0, n + 1) if names[i] in after]
    want = [files[names[i]] for i in range(0, n) if names[i] in files]
    have = [s for s in survivors if s in want]
    return H.verdict(have == want and len(set(survivors)) == len(survivors))


@H.ob(model="none", quick=300, thorough=900,
      targets=("clematis/scripts/rotate_logs.py:rotate_one", "clematis/io/atomic.py:atomic_replace"),
      stubs=("rotate_logs.os / Path and clematis.io.atomic -> FS model; the j-th os.replace call fails with a symbolic error kind, transient or persistent",),
      bounds="backups N in 1..3; presence mask of path, path.1..path.3; failing replace index j in 0..3; error kind in {EIO, ENOSPC, EACCES, EBUSY}; 1 failure or persistent",
      split={"n": [1, 2, 3], "kind": [0, 1, 2, 3]},
      note="C16.e rotation is lossless under I/O errors of a rename: no generation other than the oldest disappears because a rename failed")
def rotation_faults(n: int, mask: int, j: int, kind: int, persistent: bool) -> bool:
    """
    pre: 1 <= n <= 3 and 0 <= mask < 16 and 0 <= j <= 3 and 0 <= kind <= 3
    post: _
    """
    base = "/logs/t1.jsonl"
    names = [base] + ["%s.%d" % (base, k) for k in range(1, 5)]
    files = {}
    for i, nm in enumerate(names[:4]):
        if (mask >> i) & 1:
            files[nm] = ("gen%d" % i).encode()
    fs = FS(files, j, 200 if persistent else 1, kind, only_op="replace")
    R, undo = _install_rotate_fs(fs)
    try:
        try:
            R.rotate_one(base, n)
        except Killed:
            pass
        except Exception:
            pass
    finally:
        undo()
    after = list(fs.files.values())
    want = [files[names[i]] for i in range(0, min(n, 4)) if names[i] in files]
    return H.verdict(all(w in after for w in want))
