"""C10 (real stage pipeline) — the batch driver with the repository's own compute phase.

Real code: parallel._run_agents_parallel_batch -> _agents_parallel_enabled -> either the identity path
(_clone_ctx_for_agent + Orchestrator.run_turn on the live state) or the compute/commit path
(_run_turn_compute = Orchestrator.run_turn in dry-run mode on a read-only snapshot).  Nothing is stubbed
except the log/snapshot sinks; the embedding adapter is the repository's deterministic BGEAdapter.
"""
from __future__ import annotations

import copy
import os

from engine import symx as H
from harness import world as W
import clematis.engine.orchestrator as ORCH
import clematis.engine.orchestrator.parallel as P
import clematis.engine.orchestrator.core as OC
import clematis.engine.util.io_logging as IOL
from clematis.adapters.embeddings import BGEAdapter
from clematis.memory.index import InMemoryIndex

TEXTS = ["alpha beta", "alpha beta notes", "gamma"]
_VECS = None


def _vecs():
    global _VECS
    if _VECS is None:
        enc = BGEAdapter(dim=32)
        _VECS = [[float(x) for x in enc.encode([t])[0]] for t in TEXTS]
    return _VECS


def _world(t3_on):
    W.reset_globals()
    # T3 has no validated config switch; the documented environment override is used
    if t3_on:
        os.environ.pop("CLEMATIS_T3_DENY", None)
    else:
        os.environ["CLEMATIS_T3_DENY"] = "1"
    cfg = W.make_cfg({"t1": {"decay": {"mode": "exp_floor", "rate": 0.6, "floor": 0.05}}, 
                      "perf": {"enabled": True, "parallel": {"enabled": True, "agents": True, "max_workers": 2}}}, memo="c10w")
    idx = InMemoryIndex()
    for i, o in enumerate(["A", "B", "world"]):
        idx.add({"id": "e%d" % (i + 1), "owner": o, "text": TEXTS[i], "ts": W.EP_TS[i], "vec_full": list(_vecs()[i]), "aux": {"importance": 0.5}})
    st = W.make_state(two=True, index=idx)
    st["graphs_by_agent"] = {"A": ["g:surface"], "B": ["g:two"]}
    return cfg, st


def _set_gate(cfg, en, ag, workers):
    pp = cfg["perf"]["parallel"]
    pp["enabled"] = en
    pp["agents"] = ag
    pp["max_workers"] = workers


def _store_dump(st):
    store = st["store"]
    out = []
    for gid in sorted(store._graphs.keys()) if hasattr(store, "_graphs") else []:
        g = store._graphs[gid]
        out.append((gid, sorted((n.id, n.label) for n in g.nodes.values()), sorted((e.id, e.src, e.dst, e.weight) for e in g.edges.values())))
    return out, st.get("version_etag")


_SEQ = {}


def _sequential(nag, t3_on, warm):
    # the reference does not depend on any symbolic value: computed once per process and reused on every path
    key = (int(nag), bool(t3_on), bool(warm))
    if key not in _SEQ:
        _SEQ[key] = _sequential_run(*key)
    return copy.deepcopy(_SEQ[key])


def _sequential_run(nag, t3_on, warm):
    cfg, st = _world(t3_on)
    lines = []
    with W.TurnSpy() as spy:
        if warm:
            OC.Orchestrator().run_turn(W.make_ctx(cfg, turn_id=2, agent="A", enc=None), st, "warm up")
        mark = len(spy.records)
        for a in ["A", "B"][:nag]:
            ctx = W.make_ctx(cfg, turn_id=3, agent=a, enc=None, now_ms=0, seed=0)
            lines.append(OC.Orchestrator().run_turn(ctx, st, "alpha beta").line)
    return lines, list(spy.records[mark:]), _store_dump(st)


def _driver(nag, t3_on, warm, en, ag, workers):
    cfg, st = _world(t3_on)
    sink = []
    saved = ORCH.__dict__.get("_append_jsonl_unbuffered")
    ORCH._append_jsonl_unbuffered = lambda path, payload: sink.append((path, IOL.normalize_for_identity(path, dict(payload))))
    try:
        with W.TurnSpy() as spy:
            if warm:
                OC.Orchestrator().run_turn(W.make_ctx(cfg, turn_id=2, agent="A", enc=None), st, "warm up")
            mark = len(spy.records)
            _set_gate(cfg, en, ag, workers)
            ctx = W.make_ctx(cfg, turn_id=3, agent="driver", enc=None, now_ms=0, seed=0)
            res = P._run_agents_parallel_batch(ctx, st, [(a, "alpha beta") for a in ["A", "B"][:nag]])
    finally:
        if saved is None:
            ORCH.__dict__.pop("_append_jsonl_unbuffered", None)
        else:
            ORCH._append_jsonl_unbuffered = saved
        IOL.disable_staging()
    return [r.line for r in res], list(spy.records[mark:]) + sink, _store_dump(st)


def _mask(records):
    # wall-time fields of the non-identity streams (t3*.jsonl: ms_plan, ms_rag, ...) differ between any two runs
    return [(n, r if n in W.CANONICAL else {k: v for k, v in r.items() if not (k == "ms" or k.startswith("ms_"))}) for n, r in records]


@H.ob(model="none", quick=400, thorough=900, per_path=200,
      targets=("clematis/engine/orchestrator/parallel.py:_run_agents_parallel_batch", "clematis/engine/orchestrator/parallel.py:_agents_parallel_enabled", "clematis/engine/orchestrator/parallel.py:_clone_ctx_for_agent",
               "clematis/engine/orchestrator/parallel.py:_run_turn_compute", "clematis/engine/orchestrator/core.py:Orchestrator.run_turn"),
      stubs=("TurnSpy log/snapshot capture; orchestrator._append_jsonl_unbuffered -> in-memory sink (identity-normalised)",),
      bounds="real pipeline (T1..T4, apply, health) for 1..2 agents with disjoint graphs on world W3+g:two / 3 episodes embedded by the repository's BGEAdapter(dim=32); perf.parallel.enabled and .agents symbolic booleans, max_workers unbounded symbolic int; T3 on / off (CLEMATIS_T3_DENY=1); with or without a previous turn on the state (cache manager present); driver context with the falsy-but-set fields now_ms=0, seed=0",
      split={"nag": [1, 2] if H.THOROUGH else [2], "t3_on": [False, True] if H.THOROUGH else [True], "warm": [False, True] if H.THOROUGH else [False]},
      note="C10 with the real stage pipeline: the batch driver returns the same per-agent utterances, leaves the same store contents and state version, and emits the same log records (identity-normalised; ms* timing fields of non-identity streams masked) in the same order as a plain sequential loop of run_turn over the agents — for every setting of the agent-parallel gate (flags, worker count)")
def real_pipeline(nag: int, t3_on: bool, warm: bool, en: bool, ag: bool, workers: int) -> bool:
    """
    pre: 1 <= nag <= 2
    post: _
    """
    try:
        got = _driver(nag, t3_on, warm, en, ag, workers)
    except Exception:
        return False
    ref = _sequential(nag, t3_on, warm)
    ok = got[0] == ref[0] and got[2] == ref[2]
    ok = ok and _mask(got[1]) == _mask(ref[1])
    return H.verdict(ok)
