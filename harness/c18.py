"""C18 — GEL edge weights stay bounded, decay monotonically, keys canonical.

Real code: clematis.engine.gel.observe_retrieval / tick / merge_candidates / apply_merge / split_candidates /
apply_split / promote_clusters / apply_promotion.  One inductive step from an arbitrary in-bounds edge map.
"""
from __future__ import annotations

import copy

from engine import symx as H
from harness import world as W
from types import SimpleNamespace as NS
import clematis.engine.gel as G

IDS = ["x", "y", "z"]
PERMS = [[0, 1, 2], [0, 2, 1], [1, 0, 2], [1, 2, 0], [2, 0, 1], [2, 1, 0]]


def _ctx(graph_cfg):
    cfg = W.to_attr({"graph": graph_cfg})
    return NS(cfg=cfg, config=cfg, turn_id=3, agent_id="A")


def _edge(a, b, w, rel="coact"):
    key, src, dst = G._edge_key(a, b)
    return key, {"id": key, "src": src, "dst": dst, "weight": w, "rel": rel, "updated_at": None, "attrs": {"coact": 1, "last_seen_turn": 1}}


def _canonical(edges) -> bool:
    seen = set()
    for k, rec in edges.items():
        if not (rec["src"] <= rec["dst"]) or k != f"{rec['src']}→{rec['dst']}" or rec.get("id") != k:
            return False
        pair = (rec["src"], rec["dst"])
        if pair in seen:
            return False
        seen.add(pair)
    return True


@H.ob(model="realfin", quick=300, thorough=900,
      targets=("clematis/engine/gel.py:observe_retrieval", "clematis/engine/gel.py:_edge_key", "clematis/engine/gel.py:_as_id_score"),
      bounds="3 retrieved items: ids x, then x|y, then y|z by symbolic index (duplicates allowed), symbolic finite real scores; threshold in [0,1] symbolic; observe_top_k 1..3 and pair_cap 0..3 (one job each); alpha/clamps concrete (0.02, [-1,1]); edge x-y pre-existing or not; items listed forwards as tuples and backwards as dicts",
      split={"topk": [1, 2, 3], "pcap": [0, 1, 2, 3]},
      note="C18.a observation step, selection: at most pair_cap pairs among the top-k items at/above the threshold are updated, only those ids take part, keys canonical with one edge per unordered pair, result independent of listing order and item shape")
def observe_select(has_edge: bool, i1: int, i2: int, s0: float, s1: float, s2: float, thr: float, topk: int, pcap: int) -> bool:
    """
    pre: 0 <= i1 <= 1 and 1 <= i2 <= 2 and 0.0 <= thr <= 1.0
    pre: 1 <= topk <= 3 and 0 <= pcap <= 3
    post: _
    """
    gcfg = {"enabled": True, "coactivation_threshold": thr, "observe_top_k": topk, "pair_cap_per_obs": pcap,
            "update": {"mode": "additive", "alpha": 0.02, "clamp_min": -1.0, "clamp_max": 1.0}}
    items = [("x", s0), (IDS[i1], s1), (IDS[i2], s2)]

    def run(order, as_dict):
        edges = {}
        if has_edge:
            k, rec = _edge("x", "y", 0.3)
            edges[k] = rec
        state = {"graph": {"nodes": {}, "edges": edges, "meta": {"schema": "v1"}}}
        its = [items[j] for j in order]
        if as_dict:
            its = [{"id": a, "score": b} for a, b in its]
        m = G.observe_retrieval(_ctx(gcfg), state, its, turn=7, agent="A")
        return state["graph"]["edges"], m

    edges, m = run([0, 1, 2], False)
    edges_p, m_p = run([2, 1, 0], True)
    ok = _canonical(edges)
    above = [(a, s) for a, s in items if s >= thr]
    k_used = min(len(above), topk)
    ok = ok and m["k_in"] == 3 and m["k_used"] == k_used
    ok = ok and m["pairs_updated"] <= pcap and m["pairs_updated"] == min(pcap, k_used * (k_used - 1) // 2)
    used_ids = {a for a, s in sorted(above, key=lambda t: (-t[1], t[0]))[:topk]}
    for rec in edges.values():
        if not (has_edge and rec["src"] == "x" and rec["dst"] == "y"):
            ok = ok and rec["src"] in used_ids and rec["dst"] in used_ids
    ok = ok and {k: r["weight"] for k, r in edges.items()} == {k: r["weight"] for k, r in edges_p.items()} and m == m_p
    return H.verdict(ok)


@H.ob(model="realfin", quick=300, thorough=600,
      targets=("clematis/engine/gel.py:observe_retrieval", "clematis/engine/gel.py:_clamp"),
      bounds="one pair x,y observed (scores 0.9/0.8 above threshold 0.2) 1..2 times; pre-existing weight symbolic inside the symbolic clamp interval, or edge absent; alpha > 0, clamp_min < clamp_max symbolic reals; mode additive/proportional",
      note="C18.a observation step, arithmetic: the updated weight is clamp(w + increment) and therefore inside [clamp_min, clamp_max] from any in-bounds start; the co-activation counter counts observations")
def observe_update(w0: float, has_edge: bool, alpha: float, cmin: float, cmax: float, prop: bool, twice: bool) -> bool:
    """
    pre: alpha > 0.0 and cmin < cmax and cmin <= w0 <= cmax
    post: _
    """
    gcfg = {"enabled": True, "coactivation_threshold": 0.2, "observe_top_k": 4, "pair_cap_per_obs": 8,
            "update": {"mode": "proportional" if prop else "additive", "alpha": alpha, "clamp_min": cmin, "clamp_max": cmax}}
    edges = {}
    if has_edge:
        k, rec = _edge("x", "y", w0)
        edges[k] = rec
    state = {"graph": {"nodes": {}, "edges": edges, "meta": {"schema": "v1"}}}
    n = 2 if twice else 1
    for _ in range(n):
        G.observe_retrieval(_ctx(gcfg), state, [("y", 0.8), ("x", 0.9)], turn=7, agent="A")
    e = state["graph"]["edges"]
    ok = _canonical(e) and list(e.keys()) == ["x→y"]
    w = w0 if has_edge else 0.0
    for _ in range(n):
        inc = alpha * (1.0 - min(abs(w), 1.0)) if prop else alpha
        w = w + inc
        w = cmax if w > cmax else (cmin if w < cmin else w)
    rec = e["x→y"]
    ok = ok and rec["weight"] == w and cmin <= rec["weight"] <= cmax
    ok = ok and rec["attrs"]["coact"] == (1 if has_edge else 0) + n and rec["attrs"]["last_seen_turn"] == 7
    return H.verdict(ok)


@H.ob(model="ieee", quick=300, thorough=600,
      targets=("clematis/engine/gel.py:observe_retrieval",),
      bounds="3 items x,y,z with scores ranging over every double INCLUDING NaN and +-inf (exact IEEE; comparisons only: alpha/clamps concrete 0.02/[-1,1], threshold 0.2, top-k 2, pair cap 1); two listing orders",
      note="C18.a filter/sort kernel in exact IEEE-754: NaN scores never take part, the top-k cut and the updated pair do not depend on the listing order")
def observe_nan(s0: float, s1: float, s2: float) -> bool:
    """
    post: _
    """
    gcfg = {"enabled": True, "coactivation_threshold": 0.2, "observe_top_k": 2, "pair_cap_per_obs": 1,
            "update": {"mode": "additive", "alpha": 0.02, "clamp_min": -1.0, "clamp_max": 1.0}}
    items = [("x", s0), ("y", s1), ("z", s2)]

    def run(order):
        state = {"graph": {"nodes": {}, "edges": {}, "meta": {"schema": "v1"}}}
        m = G.observe_retrieval(_ctx(gcfg), state, [items[j] for j in order], turn=1, agent="A")
        return sorted(state["graph"]["edges"].keys()), m

    e1, m1 = run([0, 1, 2])
    e2, m2 = run([2, 0, 1])
    above = [(a, s) for a, s in items if s >= 0.2]
    ok = e1 == e2 and m1 == m2 and m1["k_used"] == min(2, len(above)) and len(e1) == (1 if len(above) >= 2 else 0)
    for k in e1:
        for a, s in items:
            if s != s:
                ok = ok and a not in k.split("→")
    return H.verdict(ok)


HALF = [1, 2, 200]
DTS = [0, 1, 2, 5]


@H.ob(model="realfin", quick=300, thorough=900,
      targets=("clematis/engine/gel.py:tick",),
      bounds="two edges with symbolic weights inside the symbolic clamp interval; floor >= 0 symbolic; (dt, half-life) by symbolic index over {0,1,2,5} x {1,2,200} (0.5 ** x is realised by CrossHair for symbolic x, hence the concrete set)",
      split={"di": [0, 1, 2, 3], "hi": [0, 1, 2]},
      note="C18.b decay tick: never increases a magnitude, removes exactly the edges that fall below the floor, keeps survivors inside the clamp bounds, keeps keys canonical and the edge counter exact")
def tick_step(w0: float, w1: float, cmin: float, cmax: float, floor: float, di: int, hi: int) -> bool:
    """
    pre: cmin < cmax and cmin <= w0 <= cmax and cmin <= w1 <= cmax and floor >= 0.0
    pre: 0 <= di <= 3 and 0 <= hi <= 2
    post: _
    """
    gcfg = {"enabled": True, "update": {"clamp_min": cmin, "clamp_max": cmax}, "decay": {"half_life_turns": HALF[hi], "floor": floor}}
    k0, r0 = _edge("x", "y", w0)
    k1, r1 = _edge("y", "z", w1)
    state = {"graph": {"nodes": {}, "edges": {k0: r0, k1: r1}, "meta": {"schema": "v1"}}}
    m = G.tick(_ctx(gcfg), state, decay_dt=DTS[di], turn=9, agent="A")
    factor = 0.5 ** (float(DTS[di]) / HALF[hi])
    edges = state["graph"]["edges"]
    ok = _canonical(edges) and state["graph"]["meta"]["edges_count"] == len(edges)
    dropped = 0
    for k, w in ((k0, w0), (k1, w1)):
        w2 = w * factor
        if abs(w2) < floor:
            ok = ok and k not in edges
            dropped += 1
        else:
            ok = ok and k in edges and edges[k]["weight"] == w2 and abs(edges[k]["weight"]) <= abs(w)
            ok = ok and cmin <= edges[k]["weight"] <= cmax
    ok = ok and m["dropped_edges"] == dropped
    return H.verdict(ok)


@H.ob(model="realfin", quick=400, thorough=900, split={"concat": [False, True], "rev": [False, True]},
      targets=("clematis/engine/gel.py:merge_candidates", "clematis/engine/gel.py:apply_merge", "clematis/engine/gel.py:split_candidates", "clematis/engine/gel.py:apply_split", "clematis/engine/gel.py:promote_clusters", "clematis/engine/gel.py:apply_promotion"),
      bounds="triangle x-y-z with 3 symbolic weights in [-1,1] plus pendant z-q (weight 0.03 quick, symbolic thorough); merge/split thresholds concrete (0.2 / 0.05); edge dict inserted in 2 orders; label mode by flag; attach weight symbolic",
      note="C18.c maintenance passes only annotate (merge/split leave nodes and edges untouched), candidates do not depend on edge insertion order, promotion attaches a concept node and is idempotent")
def maintenance(w0: float, w1: float, w2: float, w3: float, attach: float, concat: bool, rev: bool) -> bool:
    """
    pre: -1.0 <= w0 <= 1.0 and -1.0 <= w1 <= 1.0 and -1.0 <= w2 <= 1.0 and -1.0 <= w3 <= 1.0
    pre: -2.0 <= attach <= 2.0
    pre: H.THOROUGH or w3 == 0.03
    post: _
    """
    min_avg, weak = 0.2, 0.05
    gcfg = {"enabled": True, "merge": {"enabled": True, "min_size": 3, "min_avg_w": min_avg, "max_diameter": 2},
            "split": {"enabled": True, "weak_edge_thresh": weak, "min_component_size": 1},
            "promotion": {"enabled": True, "label_mode": "concat_k" if concat else "lexmin", "topk_label_ids": 2, "attach_weight": attach}}
    pairs = [("x", "y", w0), ("y", "z", w1), ("x", "z", w2), ("z", "q", w3)]

    def mk(order):
        edges = {}
        for a, b, w in order:
            k, rec = _edge(a, b, w)
            edges[k] = rec
        return {"graph": {"nodes": {"x": {"id": "x"}}, "edges": edges, "meta": {"schema": "v1"}}}

    ctx = _ctx(gcfg)
    st = mk(pairs)
    st_r = mk(list(reversed(pairs)))
    mc, sc = G.merge_candidates(ctx, st), G.split_candidates(ctx, st)
    ok = mc == G.merge_candidates(ctx, st_r) and sc == G.split_candidates(ctx, st_r)
    use = st_r if rev else st
    before = copy.deepcopy(use["graph"])
    for c in mc:
        G.apply_merge(ctx, use, c)
    for s in sc:
        G.apply_split(ctx, use, s)
    ok = ok and use["graph"]["nodes"] == before["nodes"] and use["graph"]["edges"] == before["edges"]
    ok = ok and len(use["graph"]["meta"]["merges"]) == len(mc) and len(use["graph"]["meta"]["splits"]) == len(sc)
    promos = G.promote_clusters(ctx, use, mc)
    for p in promos:
        G.apply_promotion(ctx, use, p)
    once = copy.deepcopy(use["graph"])
    for p in promos:
        G.apply_promotion(ctx, use, p)
    ok = ok and use["graph"] == once and _canonical(use["graph"]["edges"])
    for p in promos:
        ok = ok and p["concept_id"] in use["graph"]["nodes"] and -1.0 <= p["attach_weight"] <= 1.0
        ok = ok and p["label"] == ("+".join(p["members"][:2]) if concat else p["members"][0])
    # original members keep their own edges' weights unless re-labelled as concept attachments
    for k, rec in before["edges"].items():
        ok = ok and k in use["graph"]["edges"]
    return H.verdict(ok)


@H.ob(model="realfin", quick=200, thorough=400,
      targets=("clematis/engine/gel.py:observe_retrieval", "clematis/engine/gel.py:tick", "clematis/engine/gel.py:merge_candidates", "clematis/engine/gel.py:apply_promotion"),
      bounds="graph.enabled false or absent (symbolic), every other graph.* scalar symbolic; state holds one edge; all 8 public GEL entry points called",
      note="C18.d with the gate off every GEL API leaves the graph state deep-equal and reports zero work")
def gate_off(absent: bool, thr: float, alpha: float, cmin: float, cmax: float, floor: float, topk: int, pcap: int, hl: int, s0: float) -> bool:
    """
    post: _
    """
    gcfg = {"coactivation_threshold": thr, "observe_top_k": topk, "pair_cap_per_obs": pcap,
            "update": {"mode": "additive", "alpha": alpha, "clamp_min": cmin, "clamp_max": cmax},
            "decay": {"half_life_turns": hl, "floor": floor}, "merge": {"enabled": True}, "split": {"enabled": True}, "promotion": {"enabled": True}}
    if not absent:
        gcfg["enabled"] = False
    k, rec = _edge("x", "y", 0.4)
    state = {"graph": {"nodes": {"x": {"id": "x"}}, "edges": {k: rec}, "meta": {"schema": "v1"}}}
    before = copy.deepcopy(state)
    ctx = _ctx(gcfg)
    try:
        m1 = G.observe_retrieval(ctx, state, [("x", s0), ("y", 0.9), ("z", 0.8)], turn=1, agent="A")
        m2 = G.tick(ctx, state, decay_dt=3, turn=1, agent="A")
        a = G.merge_candidates(ctx, state)
        b = G.split_candidates(ctx, state)
        c = G.promote_clusters(ctx, state, [{"nodes": ["x", "y"]}])
        G.apply_merge(ctx, state, {"nodes": ["x", "y"]})
        G.apply_split(ctx, state, {"original": ["x", "y"], "parts": [["x"], ["y"]]})
        G.apply_promotion(ctx, state, {"concept_id": "c::x", "members": ["x", "y"]})
    except Exception:
        return False
    ok = state == before and m1["pairs_updated"] == 0 and m2["decayed_edges"] == 0 and m2["dropped_edges"] == 0 and a == [] and b == [] and c == []
    return H.verdict(ok)
