"""C13 (turn level) — one retrieval refinement per turn, op cap and token budget through the real run_turn.

Real code: Orchestrator.run_turn -> make_plan_bundle -> policy.deliberate -> rag_once(_retrieve_fn -> t2_semantic) ->
make_dialog_bundle -> speak.  Policy thresholds, the RAG loop switch, the op cap and the token budget are SYMBOLIC values
inside the validated configuration; retrieval calls are counted at the documented stage hook orchestrator.t2_semantic.
"""
from __future__ import annotations

from engine import symx as H
from harness import world as W
import clematis.engine.orchestrator as ORCH
from clematis.engine.stages.t2 import t2_semantic as _real_t2

TEXTS = ["alpha beta", "zeta"]
SCORES = [0.5, 0.35, 0.2]   # cosine of the three episodes: best similarity 0.5 lies strictly inside (0, 1)


def pick(lst, i):
    for j, v in enumerate(lst):
        if i == j:
            return v
    raise IndexError(i)


def _turn(tau_low, tau_high, loops, ops_cap, tokens, ti):
    W.reset_globals()
    cfg = W.make_cfg({"t1": {"decay": {"mode": "exp_floor", "rate": 0.6, "floor": 0.05}},
                      "t3": {"max_rag_loops": 1, "max_ops_per_turn": 8, "tokens": 64, "policy": {"tau_high": 0.8, "tau_low": 0.4}}}, memo="c13w")
    cfg["t3"]["policy"]["tau_low"] = tau_low
    cfg["t3"]["policy"]["tau_high"] = tau_high
    cfg["t3"]["max_rag_loops"] = loops
    cfg["t3"]["max_ops_per_turn"] = ops_cap
    cfg["t3"]["tokens"] = tokens
    state = W.make_state()
    ctx = W.make_ctx(cfg, turn_id=3, agent="A")
    calls = []

    def counting_t2(ctx_, state_, text, t1):
        calls.append(text)
        return _real_t2(ctx_, state_, text, t1)

    saved = ORCH.__dict__.get("t2_semantic")
    ORCH.t2_semantic = counting_t2
    try:
        with W.CosineStub(SCORES):
            res, spy = W.run_turn(ctx, state, pick(TEXTS, ti))
    finally:
        if saved is None:
            ORCH.__dict__.pop("t2_semantic", None)
        else:
            ORCH.t2_semantic = saved
        W.reset_globals()
    return res, spy, calls


@H.ob(model="realfin", quick=400, thorough=900, per_path=200,
      targets=("clematis/engine/orchestrator/core.py:Orchestrator.run_turn", "clematis/engine/stages/t3/policy.py:deliberate", "clematis/engine/stages/t3/legacy.py:rag_once", "clematis/engine/stages/t3/dialogue.py:speak"),
      stubs=("TurnSpy log/snapshot capture", "memory.index._cosine -> concrete scores 0.5/0.35/0.2 (best similarity 0.5)", "orchestrator.t2_semantic stage hook -> counting wrapper around the real t2_semantic"),
      bounds="one real turn on world W3/M3 (marker embeddings), text by index over 2; t3.policy.tau_low <= tau_high symbolic reals in [0,1]; t3.max_rag_loops in {0, 1, 3} (3 is a value the validator rejects but run_turn reads the configuration as given); t3.max_ops_per_turn symbolic int in [1,16]; t3.tokens symbolic int in [1,64]",
      split={"ti": [0, 1], "loops": [0, 1, 3]},
      note="C13.b at turn level: t2_semantic runs once for the turn and at most once more for a refinement, the refinement happens only if the plan requested retrieval and max_rag_loops >= 1, retrieval is requested exactly when the best similarity is below the CONFIGURED tau_low (and the op cap leaves room), the Speak intent follows the configured thresholds, the plan log shows at most min(caps) ops led by Speak, and the utterance has at most t3.tokens whitespace tokens")
def one_refinement(tau_low: float, tau_high: float, loops: int, ops_cap: int, tokens: int, ti: int) -> bool:
    """
    pre: 0.0 <= tau_low <= tau_high <= 1.0
    pre: 0 <= loops <= 3 and 1 <= ops_cap <= 16 and 1 <= tokens <= 64 and 0 <= ti <= 1
    post: _
    """
    try:
        res, spy, calls = _turn(tau_low, tau_high, loops, ops_cap, tokens, ti)
    except Exception:
        return False
    plan = spy.by_stream("t3_plan.jsonl")
    t2rec = spy.by_stream("t2.jsonl")
    ok = len(plan) == 1 and len(t2rec) >= 1 and isinstance(res.line, str)
    if not ok:
        return False
    p = plan[0]
    requested = bool(p.get("requested_retrieve"))
    used = bool(p.get("rag_used"))
    ok = ok and 1 <= len(calls) <= 2
    ok = ok and (len(calls) == 2) == (requested and loops >= 1)
    ok = ok and (not used or (requested and loops >= 1))
    s_max = (t2rec[0].get("sim_stats") or {}).get("max", 0.0)
    ok = ok and s_max == 0.5
    # retrieval is requested exactly below the configured low threshold (and only if the op cap leaves room after Speak)
    ok = ok and requested == (s_max < tau_low and ops_cap >= 2)
    # (between the thresholds: 'assertion' when T1 touched labelled nodes - text 0 - and 'ack' otherwise - text 1)
    # the Speak intent follows the configured thresholds (the rule-based utterance ends with the intent)
    intent = "summary" if s_max >= tau_high else (("assertion" if ti == 0 else "ack") if s_max >= tau_low else "question")
    if tokens >= 16:
        ok = ok and res.line.endswith("next: " + intent)
    counts = p.get("ops_counts") or {}
    total = 0
    for k in counts:
        total = total + counts[k]
    ok = ok and total <= ops_cap and counts.get("Speak", 0) == 1 and counts.get("RequestRetrieve", 0) <= 1
    ok = ok and len(res.line.split()) <= tokens
    return H.verdict(ok)
