"""C04 (turn level) — the T4 kill switch toggled at arbitrary turns of a history.

Real code: Orchestrator.run_turn (t4_enabled branch), t4_filter, apply_changes, write_snapshot on the real in-memory
store.  The switch is a SYMBOLIC boolean placed in the validated configuration of each turn, so every read of it forks.
"""
from __future__ import annotations

import copy

from engine import symx as H
from harness import world as W
import clematis.engine.orchestrator as ORCH
import clematis.engine.orchestrator.core as OC
from clematis.engine.stages.t3.policy import deliberate as _real_deliberate
from clematis.engine.types import ProposedDelta

BUST = ["none", "on-apply"]
CAD = [1, 2]
TEXTS = ["alpha beta", "beta gamma", "alpha"]
AGENTS = ["A", "B", "A"]


def pick(lst, i):
    for j, v in enumerate(lst):
        if i == j:
            return v
    raise IndexError(i)


class RecStore:
    """Recording double around the real in-memory store: apply_deltas is recorded (and counted as applied), every read delegates."""

    def __init__(self, inner):
        self._inner = inner
        self.calls = []

    def apply_deltas(self, gid, deltas):
        self.calls.append((gid, [(d.target_kind, d.target_id, d.attr) for d in deltas]))
        return {"edits": len(deltas)}

    def __getattr__(self, n):
        return getattr(self._inner, n)


def _planner_with_deltas(ctx, state, bundle):
    """The documented monkeypatch point clematis.engine.orchestrator.t3_deliberate: the real rule-based plan plus two
    proposed deltas (the rule-based planner itself never proposes any, so without this T4/apply would have nothing to hand over)."""
    plan = _real_deliberate(bundle)
    plan.deltas = [ProposedDelta("node", "n:a", "weight", 0.1, None, 0), ProposedDelta("edge", "e:a|supports|b", "weight", -0.05, None, 1)]
    return plan


def _dump(st):
    store = st["store"]._inner
    out = []
    for gid in sorted(store._graphs.keys()):
        g = store._graphs[gid]
        out.append((gid, g.version_etag, sorted((n.id, n.label, getattr(n, "weight", None), repr(sorted((getattr(n, "attrs", None) or {}).items()))) for n in g.nodes.values()),
                    sorted((e.id, e.src, e.dst, e.weight, e.rel) for e in g.edges.values())))
    return out, st.get("version_etag")


def _history(switches, ci, bi, skip_off):
    """Runs turns 4,5,6 (those whose switch is off are skipped entirely when skip_off). Returns per-turn observations."""
    W.reset_globals()
    state = W.make_state()
    state["store"] = RecStore(state["store"])
    saved = ORCH.__dict__.get("t3_deliberate")
    ORCH.t3_deliberate = _planner_with_deltas
    saved_loader = OC.load_latest_snapshot

    def old_snapshot_loader(ctx, st):
        # environment model: the snapshot directory holds an OLDER snapshot; whenever the boot loader runs it restores it.
        # The state of these histories has already booted, so a correct engine never calls it.
        st["version_etag"] = "0"
        return st

    OC.load_latest_snapshot = old_snapshot_loader
    try:
        return _history_inner(state, switches, ci, bi, skip_off)
    finally:
        OC.load_latest_snapshot = saved_loader
        if saved is None:
            ORCH.__dict__.pop("t3_deliberate", None)
        else:
            ORCH.t3_deliberate = saved
        W.reset_globals()


def _history_inner(state, switches, ci, bi, skip_off):
    obs = []
    cad, bust = pick(CAD, ci), pick(BUST, bi)
    for i, on in enumerate(switches):
        if skip_off and not on:
            obs.append(None)
            continue
        cfg = W.make_cfg({"t1": {"decay": {"mode": "exp_floor", "rate": 0.6, "floor": 0.05}},
                          "t4": {"enabled": True, "snapshot_every_n_turns": cad, "cache_bust_mode": bust}}, memo=("c04w", cad, bust))
        cfg["t4"]["enabled"] = on
        ctx = W.make_ctx(cfg, turn_id=4 + i, agent=AGENTS[i])
        before = copy.deepcopy(_dump(state))
        ncalls = len(state["store"].calls)
        res, spy = W.run_turn(ctx, state, TEXTS[i])
        after = _dump(state)
        obs.append({"before": before, "after": after, "calls": list(state["store"].calls[ncalls:]), "t4": spy.by_stream("t4.jsonl"), "names": spy.names(), "snaps": len(spy.snapshots) + len(spy.sidecars), "line": res.line,
                    "apply": spy.by_stream("apply.jsonl"), "turn": spy.by_stream("turn.jsonl")})
    return obs, (_dump(state), list(state["store"].calls))


@H.ob(model="none", quick=400, thorough=900, per_path=200,
      targets=("clematis/engine/orchestrator/core.py:Orchestrator.run_turn", "clematis/engine/apply.py:apply_changes", "clematis/engine/stages/t4.py:t4_filter", "clematis/engine/snapshot.py:write_snapshot"),
      stubs=("TurnSpy log/snapshot capture", "orchestrator.core.load_latest_snapshot -> model of a snapshot directory holding an older snapshot (restores version 0 whenever the boot loader runs; the state has already booted)", "graph store wrapped in a recording double (apply_deltas recorded, reads delegate to the real store)", "planner = real rule-based deliberate() + two proposed deltas through the documented orchestrator.t3_deliberate hook"),
      bounds="history of 3 real turns (ids 4,5,6, agents A,B,A sharing the state, three texts) on world W3/M3 with the real in-memory store; t4.enabled of each turn a SYMBOLIC boolean; snapshot cadence by index over {1,2}; cache-bust mode by index over {none, on-apply}",
      split={"k1": [False, True], "ci": [0, 1]},
      note="C04 kill switch toggled at arbitrary turns: a turn with the switch off makes no call to the store's apply_deltas, leaves store contents (nodes, edges, per-graph etags) and state version untouched, writes no snapshot and emits no t4.jsonl/apply.jsonl record, yet still returns an utterance and a turn record; a turn with the switch on hands the store exactly one batch with the approved deltas in canonical order, advances the version by exactly one, emits one apply record carrying that version and snapshots exactly on the cadence; and the store/version after the history equal those of the same history with the switched-off turns left out")
def kill_switch(k1: bool, k2: bool, k3: bool, ci: int, bi: int) -> bool:
    """
    pre: 0 <= ci < len(CAD) and 0 <= bi < len(BUST)
    post: _
    """
    sw = [k1, k2, k3]
    try:
        obs, final = _history(sw, ci, bi, False)
    except Exception:
        return False
    ok = True
    n = pick(CAD, ci)
    for i, on in enumerate(sw):
        o = obs[i]
        ok = ok and isinstance(o["line"], str) and len(o["turn"]) == 1
        if not on:
            ok = ok and o["after"] == o["before"] and o["snaps"] == 0 and o["calls"] == []
            ok = ok and "t4.jsonl" not in o["names"] and "apply.jsonl" not in o["names"]
        else:
            v0, v1 = o["before"][1], o["after"][1]
            ok = ok and int(v1) == int(v0) + 1
            ok = ok and "t4.jsonl" in o["names"] and len(o["apply"]) == 1 and str(o["apply"][0].get("version_etag")) == str(v1)
            ok = ok and (o["snaps"] > 0) == ((4 + i) % n == 0)
            # hand-off: one batch call on g:surface with exactly the approved deltas in canonical order
            ok = ok and o["calls"] == [("g:surface", [("edge", "e:a|supports|b", "weight"), ("node", "n:a", "weight")])]
            ok = ok and o["t4"][0].get("approved") == 2 and o["apply"][0].get("applied") == 2
    ref_obs, ref_final = _history(sw, ci, bi, True)
    ok = ok and final == ref_final
    return H.verdict(ok)
