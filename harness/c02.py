"""C02 — features behind a closed gate are inert.

Real code: Orchestrator.run_turn (two consecutive turns on one state), with a gated-off feature subtree filled with
alternative values, against the same history under a configuration that omits the subtree.
The alternative values are GENERATED from the validator's DEFAULTS tree (type-directed) and filtered through the real
validator at import time, so every variant is a configuration the validator accepts.
"""
from __future__ import annotations

import copy

from engine import symx as H
from harness import world as W
import configs.validate as V
from clematis.errors import ConfigError


def pick(lst, i):
    for j, v in enumerate(lst):
        if i == j:
            return v
    raise IndexError(i)


# the dialogue template shows the ids of the top retrieval snippets, so the retrieval ORDER is observable in the utterance
BASE = {"t1": {"decay": {"mode": "exp_floor", "rate": 0.6, "floor": 0.05}}, "t4": {"snapshot_every_n_turns": 1},
        "t3": {"dialogue": {"template": "{labels} | {snippets} | {intent}", "include_top_k_snippets": 3}}}

# gate name -> (path of the subtree, gate flag path relative to root, value that closes the gate)
GATES = {
    "perf": (("perf",), ("perf", "enabled"), False),
    "perf.parallel": (("perf", "parallel"), ("perf", "parallel", "enabled"), False),
    "graph": (("graph",), ("graph", "enabled"), False),
    "t2.quality": (("t2", "quality"), ("t2", "quality", "enabled"), False),
    "t2.hybrid": (("t2", "hybrid"), ("t2", "hybrid", "enabled"), False),
    "t3.reflection": (("t3", "reflection"), ("t3", "allow_reflection"), False),
    "scheduler": (("scheduler",), ("scheduler", "enabled"), False),
}
GATE_NAMES = list(GATES)

# hand-written rich variants (beyond the generated single-leaf ones)
RICH = {
    "perf": [{"t1": {"caps": {"frontier": 1, "visited": 1}, "dedupe_window": 2, "cache": {"max_entries": 1, "max_bytes": 64}},
              "t2": {"cache": {"max_entries": 1, "max_bytes": 64}, "embed_store_dtype": "fp16", "precompute_norms": True},
              "snapshots": {"compression": "zstd", "level": 5, "delta_mode": True, "every_n_turns": 3},
              "metrics": {"report_memory": True}, "parallel": {"enabled": True, "max_workers": 4, "t1": True, "t2": True, "agents": True}}],
    "perf.parallel": [{"max_workers": 8, "t1": True, "t2": True, "agents": True}],
    "graph": [{"coactivation_threshold": 0.0, "observe_top_k": 2, "pair_cap_per_obs": 1, "update": {"mode": "proportional", "alpha": 0.5, "clamp_min": -0.5, "clamp_max": 0.5},
               "decay": {"half_life_turns": 1, "floor": 0.4}, "merge": {"enabled": True, "min_size": 2, "min_avg_w": 0.95, "cap_per_turn": 9},
               "split": {"enabled": True, "weak_edge_thresh": 0.9}, "promotion": {"enabled": True, "label_mode": "concat_k", "attach_weight": 1.0}}],
    "t2.quality": [{"shadow": False, "mmr": {"enabled": False, "lambda": 0.9, "k": 2}, "fusion": {"mode": "score_interp", "alpha_semantic": 0.1}},
                   {"mmr": {"enabled": True, "lambda": 1.0, "k": 3}},
                   {"mmr": {"enabled": True, "lambda": 0.0}, "fusion": {"mode": "score_interp", "alpha_semantic": 0.0}, "shadow": True}],
    "t2.hybrid": [{"use_graph": True, "anchor_top_m": 1, "walk_hops": 2, "edge_threshold": 0.0, "lambda_graph": 1.0, "damping": 0.9, "degree_norm": "invdeg", "max_bonus": 1.0, "k_max": 2}],
    "t3.reflection": [{"backend": "rulebased", "summary_tokens": 1, "embed": False, "log": False, "topk_snippets": 0}],
    "scheduler": [{"policy": "fair_queue", "quantum_ms": 1, "budgets": {"t1_pops": 0, "t1_iters": 0, "t2_k": 0, "t3_ops": 0, "wall_ms": 1, "ops_reflection": 0},
                   "fairness": {"max_consecutive_turns": 3, "aging_ms": 0}}],
}


def _get(d, path):
    for k in path:
        d = d.get(k, {}) if isinstance(d, dict) else {}
    return d


def _set(d, path, v):
    for k in path[:-1]:
        d = d.setdefault(k, {})
    d[path[-1]] = v


def _walk(d, pre=()):
    for k, v in d.items():
        if isinstance(v, dict) and v:
            yield from _walk(v, pre + (k,))
        else:
            yield pre + (k,), v


def _alts(v):
    if isinstance(v, bool):
        return [not v]
    if isinstance(v, int):
        return [v + 1, 1, 3]
    if isinstance(v, float):
        return [v / 2.0 + 0.05, 0.9]
    return []


def _accepted(cfg):
    try:
        V.validate_config(copy.deepcopy(cfg))
        return True
    except ConfigError:
        return False


def _variant_cfgs(gate):
    sub_path, flag_path, closed = GATES[gate]
    out = []

    def mk(subtree):
        cfg = copy.deepcopy(BASE)
        if subtree is not None:
            W.deep_update(cfg, {})
            node = cfg
            for k in sub_path[:-1]:
                node = node.setdefault(k, {})
            node[sub_path[-1]] = copy.deepcopy(subtree)
        _set(cfg, flag_path, closed)
        return cfg

    defaults = _get(V.DEFAULTS, sub_path)
    # rich variants
    for r in RICH.get(gate, []):
        c = mk(r)
        if _accepted(c):
            out.append(("rich", c))
    # generated single-leaf variants
    for p, v in _walk(defaults if isinstance(defaults, dict) else {}):
        if sub_path + p == flag_path:
            continue
        for a in _alts(v):
            sub = {}
            _set(sub, p, a)
            c = mk(sub)
            if _accepted(c):
                out.append((".".join(sub_path + p) + "=" + repr(a), c))
    return out


VARIANTS = {g: _variant_cfgs(g) for g in GATE_NAMES}
NVAR = {g: len(v) for g, v in VARIANTS.items()}
QUICK_MAX = 5


def _base_cfg(gate, flag_absent):
    cfg = copy.deepcopy(BASE)
    if not flag_absent:
        _set(cfg, GATES[gate][1], GATES[gate][2])
    return cfg


def _history(raw_cfg):
    W.reset_globals()
    cfg = W.make_cfg(raw_cfg)
    state = W.make_state(two=True)
    state["graph"] = {"nodes": {}, "edges": {"e1→e2": {"id": "e1→e2", "src": "e1", "dst": "e2", "weight": 0.6, "rel": "coact", "attrs": {}}},
                      "meta": {"schema": "v1.1", "merges": [], "splits": [], "promotions": [], "concept_nodes_count": 0}}
    state["_planner_reflection_flag"] = True
    state["memory_index"] = W.make_index()
    # two near-duplicate episodes ranked next to each other ahead of a lexically distinct one (gives MMR something to permute)
    state["mem_index"].add({"id": "e0", "owner": "A", "text": "gamma only again", "ts": "2025-01-09T06:00:00Z", "vec_full": [3.1, 1.0, 0.0, 0.0], "aux": {"importance": 0.5}})
    views = []
    # the third turn repeats the first one (same agent and text): stage-level caches are hit after the version bump
    for turn, (agent, text) in enumerate((("A", "alpha beta"), ("B", "beta gamma"), ("A", "alpha beta")), start=1):
        res, spy = W.run_turn(W.make_ctx(cfg, turn_id=turn, agent=agent, now_ms=1000 * turn), state, text)
        views.append((res.line, W.canonical(spy.records), [t for _, t in spy.snapshots], sorted(set(spy.names()))))
    final = (state.get("version_etag"), copy.deepcopy(state["store"]._graphs), copy.deepcopy(state.get("graph")), len(state["memory_index"]._eps), len(state["mem_index"]._eps))
    W.reset_globals()
    return views, final


_REF = {}


def _reference(gate, flag_absent):
    # the reference history does not depend on the variant: computed once per process, deep-copied per path
    key = (gate, flag_absent)
    if key not in _REF:
        _REF[key] = _history(_base_cfg(gate, flag_absent))
    return copy.deepcopy(_REF[key])


FORBIDDEN = {"perf": (), "perf.parallel": (), "graph": ("gel.jsonl",), "t2.quality": (), "t2.hybrid": (), "t3.reflection": ("t3_reflection.jsonl",), "scheduler": ("scheduler.jsonl",)}


@H.ob(model="none", quick=500, thorough=1500, per_path=300,
      targets=("clematis/engine/orchestrator/core.py:Orchestrator.run_turn", "clematis/engine/stages/t1.py:t1_propagate", "clematis/engine/stages/t2/core.py:t2_semantic", "clematis/engine/stages/t2/quality.py:apply_quality", "clematis/engine/gel.py:observe_retrieval", "configs/validate.py:validate_config"),
      stubs=("TurnSpy log/snapshot capture; marker embedding adapter",),
      bounds="gate by index over {perf, perf.parallel, graph, t2.quality, t2.hybrid, t3.reflection, scheduler}; the gated-off subtree is filled with a variant chosen by symbolic index: one hand-written rich variant per gate + every type-directed single-leaf alternative of the validator's DEFAULTS subtree that the real validator accepts (quick: the first 5 per gate); gate flag false, reference = subtree omitted with the flag false or absent; three real turns (agents A, B, then A again with the first text) on world W3 with two graphs, memory M3, GEL edges present, reflection requested by the planner flag",
      split={"gi": list(range(len(GATE_NAMES))), "flag_absent": [False, True]},
      note="C02 closed gates: utterances, canonical logs, snapshot bodies and the engine state (version, concept graph store, GEL graph, memory sizes) after both turns equal those of the run whose configuration omits the subtree; no GEL / reflection / scheduler log is written")
def gate_inert(gi: int, vi: int, flag_absent: bool) -> bool:
    """
    pre: 0 <= gi < len(GATE_NAMES) and 0 <= vi < 64
    post: _
    """
    gate = pick(GATE_NAMES, gi)
    n = NVAR[gate] if H.THOROUGH else min(NVAR[gate], QUICK_MAX)
    if vi >= n:
        return True
    descr, raw = pick(VARIANTS[gate], vi)
    try:
        got = _history(copy.deepcopy(raw))
        ref = _reference(gate, True if flag_absent else False)
    except Exception:
        return False
    ok = got[1] == ref[1]
    for (l1, c1, s1, n1), (l2, c2, s2, n2) in zip(got[0], ref[0]):
        ok = ok and l1 == l2 and c1 == c2 and s1 == s2
        for f in FORBIDDEN[gate]:
            ok = ok and f not in n1
    return H.verdict(ok)


SECTIONS = ["t1", "t2", "t3", "t4", "graph", "scheduler", "perf", "budgets", "flags"]


@H.ob(model="none", quick=300, thorough=600,
      targets=("configs/validate.py:_validate_config_normalize_impl", "configs/validate.py:_deep_merge", "configs/validate.py:_ensure_subdict"),
      bounds="presence of each of 9 top-level sections as an empty mapping: symbolic mask (512 combinations, split over the low 3 bits)",
      split={"lo": list(range(8))},
      note="C02.v the validator's output for the engine sections does not depend on whether an untouched section is written as {} or omitted (an explicitly supplied empty perf/budgets/flags block is echoed with its closed defaults), and gated subtrees (perf.*, t2.quality) are not materialised beyond their defaults when the user did not supply them")
def validator_materialise(lo: int, hi: int) -> bool:
    """
    pre: 0 <= lo < 8 and 0 <= hi < 64
    post: _
    """
    mask = lo + 8 * hi
    cfg = {}
    for i, s in enumerate(SECTIONS):
        if (mask >> i) % 2 == 1:
            cfg[s] = {}
    try:
        out = V.validate_config(cfg)
        ref = V.validate_config({})
    except Exception:
        return False
    perf = out.get("perf")
    supplied = set(cfg)
    ok = all(out.get(k) == ref.get(k) for k in set(out) | set(ref) if k not in supplied)
    ok = ok and all(out.get(k) == ref.get(k) for k in ("t1", "t2", "t3", "t4", "graph", "scheduler"))
    ok = ok and "quality" not in out.get("t2", {}) and (perf is None or perf.get("enabled") is False)
    return H.verdict(ok)


# ----------------------------------------------------------------------------- stage-level view of the retrieval gates
from clematis.engine.types import T1Result  # noqa: E402
from clematis.engine.stages.t2 import t2_semantic  # noqa: E402
from clematis.memory.index import InMemoryIndex  # noqa: E402

_EPS = [("p1", "apple pie recipe with cinnamon sugar", 5.0), ("p2", "apple pie recipe with cinnamon sugar crust", 4.9), ("p3", "apple pie recipe with cinnamon", 4.8),
        ("q1", "quantum chromodynamics lecture notes", 3.0), ("s1", "sailing knots bowline halyard", 2.0)]


def _t2_view(raw_cfg):
    W.reset_globals()
    cfg = W.make_cfg(raw_cfg)
    idx = InMemoryIndex()
    for eid, text, m in _EPS:
        idx.add({"id": eid, "owner": "A", "text": text, "ts": "2025-01-09T00:00:00Z", "vec_full": [m, 1.0, 0.0, 0.0], "aux": {"importance": 0.5}})
    state = W.make_state(index=idx)
    state["graph"] = {"nodes": {}, "edges": {"p1→s1": {"id": "p1→s1", "src": "p1", "dst": "s1", "weight": 0.9, "rel": "coact", "attrs": {}}}, "meta": {}}
    ctx = W.make_ctx(cfg, turn_id=1, agent="A")
    r = t2_semantic(ctx, state, "tell me about dessert", T1Result(graph_deltas=[], metrics={}))
    W.reset_globals()
    return [h.id for h in r.retrieved], r.graph_deltas_residual, r.metrics


@H.ob(model="none", quick=400, thorough=900, per_path=200,
      targets=("clematis/engine/stages/t2/core.py:t2_semantic", "clematis/engine/stages/t2/quality.py:apply_quality", "clematis/engine/stages/t2/quality_ops.py:maybe_apply_mmr", "clematis/engine/stages/hybrid.py:rerank_with_gel"),
      bounds="memory of 5 episodes (3 near-duplicate texts ranked on top, 2 distinct), a GEL edge between a top and a bottom hit; gates t2.quality / t2.hybrid closed with every generated variant of their subtree (symbolic index); stage cache off",
      split={"gq": [0, 1]},
      note="C02 retrieval gates at stage level: the retrieved ids IN ORDER, the residual deltas and the T2 metrics equal the run without the subtree (a diversity or graph rerank pass would reorder this memory)")
def t2_gates_inert(gq: int, vi: int) -> bool:
    """
    pre: 0 <= gq <= 1 and 0 <= vi < 64
    post: _
    """
    gate = "t2.quality" if gq == 0 else "t2.hybrid"
    n = NVAR[gate] if H.THOROUGH else min(NVAR[gate], QUICK_MAX + 1)
    if vi >= n:
        return True
    descr, raw = pick(VARIANTS[gate], vi)
    raw = copy.deepcopy(raw)
    W.deep_update(raw, {"t2": {"cache": {"enabled": False}, "k_retrieval": 10, "sim_threshold": -1.0}})
    base = _base_cfg(gate, False)
    W.deep_update(base, {"t2": {"cache": {"enabled": False}, "k_retrieval": 10, "sim_threshold": -1.0}})
    try:
        got = _t2_view(raw)
        ref = _t2_view(base)
    except Exception:
        return False
    return H.verdict(got == ref)
