"""C12 (continued) — per-slice caps bind also when the T1 result cache is ON (no stable_key stub in this module).

Caps reach json.dumps through the real cache key, so they are chosen by symbolic index from small concrete sets;
edge weights stay symbolic (they are not part of the key)."""
from __future__ import annotations

from types import SimpleNamespace as NS

from engine import symx as H
from harness import world as W
from harness import c12 as B
import clematis.engine.stages.t1 as T1

def install():
    W.stub_store_etag()  # symbolic weights: the real etag would hash (realise) them; a counter etag keys the cache equally well here


SP = [None, 0, 1, 2, 5] if H.THOROUGH else [None, 1, 2]
SI = [None, 0, 1, 3] if H.THOROUGH else [None, 1]


@H.ob(model="realfin", quick=400, thorough=1200,
      targets=("clematis/engine/stages/t1.py:t1_propagate", "clematis/engine/stages/t1.py:_t1_one_graph", "clematis/engine/stages/t1.py:_get_cache", "clematis/engine/cache.py:LRUCache.get"),
      bounds="cycle topology, 3 symbolic real weights in [-2,2]; T1 LRU cache ON (fresh, ttl 300, real clock: both calls within the TTL); two consecutive t1_propagate calls on the same state and text with per-slice caps (t1_pops, t1_iters) chosen independently by symbolic index from {absent,1,2} x {absent,1} (quick) / {absent,0,1,2,5} x {absent,0,1,3} (thorough)",
      split={"p1": list(range(len(SP))), "p2": list(range(len(SP)))},
      note="C12.b/C17/C05 a result computed under one slice budget is never served to a call with a different (tighter or looser) budget: every call equals the reference under its own effective caps and stays within them")
def slice_caps_cached(w0: float, w1: float, w2: float, p1: int, i1: int, p2: int, i2: int) -> bool:
    """
    pre: -2.0 <= w0 <= 2.0 and -2.0 <= w1 <= 2.0 and -2.0 <= w2 <= 2.0
    pre: 0 <= p1 < len(SP) and 0 <= p2 < len(SP) and 0 <= i1 < len(SI) and 0 <= i2 < len(SI)
    post: _
    """
    W.reset_globals()
    nodes, edges = B._topology(1, w0, w1, w2)
    store = B._store(nodes, edges)
    cfg = W.to_attr({"t1": {"queue_budget": 4, "radius_cap": 3, "iter_cap": 50, "iter_cap_layers": 3, "node_budget": 1.5,
                            "edge_type_mult": dict(B.MULT), "decay": dict(B.DECAYS[0]), "cache": {"enabled": True, "max_entries": 8, "ttl_s": 300}}})
    state = {"store": store, "active_graphs": ["g"]}
    ok = True
    for sp, si in ((SP[p1], SI[i1]), (SP[p2], SI[i2])):
        ctx = NS(cfg=cfg, config=cfg, turn_id=1, agent_id="A")
        sb = {}
        if sp is not None:
            sb["t1_pops"] = sp
        if si is not None:
            sb["t1_iters"] = si
        ctx.slice_budgets = sb
        res = T1.t1_propagate(ctx, state, "alpha")
        eff_q = 4 if sp is None else min(4, sp)
        eff_l = 3 if si is None else min(3, si)
        exp_ids, exp_m = B._reference(nodes, edges, "alpha", eff_q, 3, eff_l, None, 1.5, 0)
        m = res.metrics
        ok = ok and m["pops"] <= eff_q and m["iters"] <= eff_l
        ok = ok and [d["id"] for d in res.graph_deltas] == exp_ids
        ok = ok and (m["pops"], m["iters"], m["propagations"]) == (exp_m["pops"], exp_m["iters"], exp_m["propagations"])
    W.reset_globals()
    return H.verdict(ok)
