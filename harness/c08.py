"""C08 — durable files are replaced all-or-nothing.

Real code: clematis.io.atomic (atomic_write_bytes / atomic_replace / atomic_write_text /
atomic_write_json), clematis.io.log.rewrite_jsonl, clematis.engine.snapshot._write_sidecar_meta
and write_snapshot, executed over an in-memory file-system model (engine/envmodels.FS)
in which the fault position, fault kind, fault length and kill point are symbolic.
"""
from __future__ import annotations

import fnmatch
import os
from types import SimpleNamespace as NS

from engine import symx as H
from engine.envmodels import FS, Killed, install_atomic, ERR_KINDS
import clematis.io.atomic as A

DEST = "/d/state_A.json"
OLD, NEW = b"OLDOLD", b"NEWNEW!!"

_STUBS = ("clematis.io.atomic.os/tempfile/open/Path/time -> in-memory FS model: numbered I/O steps, os.replace atomic (assumption), write = 2 steps (torn writes visible), short write returns the short count, kill stops all later disk mutation",)


def _discoverable(name: str) -> bool:
    """Would snapshot discovery or a log reader take this file name for real data?"""
    b = os.path.basename(name)
    return b.endswith(".json") or b.endswith(".jsonl") or fnmatch.fnmatch(b, "*.json.zst")


def _run_write(exists, fail_at, fail_len, kind, fn, only_op=None):
    fs = FS({DEST: OLD} if exists else {}, fail_at, fail_len, kind, watch=DEST, allowed=[OLD if exists else None, NEW], only_op=only_op)
    undo = install_atomic(fs)
    raised, killed = False, False
    try:
        try:
            fn()
        except Killed:
            killed = True
        except Exception:
            raised = True
    finally:
        undo()
    fs.dead = False
    fs.observe()
    return fs, raised, killed


def _check(fs, exists, raised, killed) -> bool:
    cur = fs.files.get(DEST)
    old = OLD if exists else None
    if fs.torn_seen:
        return False  # a reader saw something that is neither the complete old nor the complete new content
    if cur != NEW and cur != old:
        return False
    if not raised and not killed and cur != NEW:
        return False  # success must mean the new content is in place
    if raised and cur != old:
        return False  # a reported failure must leave the previous content
    others = [k for k in fs.files if k != DEST]
    if not raised and not killed and others:
        return False  # a successful write leaves nothing else behind
    if any(_discoverable(k) for k in others):
        return False  # leftovers of a failed / killed write must not look like data
    if raised and others and fs.faults_fired <= 1:
        return False  # a single (transient) failure is cleaned up completely
    return True


@H.ob(model="none", quick=300, thorough=900,
      targets=("clematis/io/atomic.py:atomic_write_bytes", "clematis/io/atomic.py:atomic_replace", "clematis/io/atomic.py:_make_tmp"),
      stubs=_STUBS,
      bounds="fault window start k in [-1, 16] over the numbered I/O steps (mktemp, open, write, write2, flush, fsync, stat, chmod, replace, open, fsync, diropen, fsync, exists, unlink ...), window length in {1 (transient), 2, 200 (persistent)}, kind in {EIO, ENOSPC, EACCES/PermissionError, EBUSY, short write, kill}; destination pre-exists or not; a reader inspects the destination before every step and at the end",
      split={"kind": [0, 1, 2, 3, 4, 5]},
      note="C08.a at every instant the destination is the complete old content (or absent) or the complete new content; success => new; reported failure => old and no temp left; kill => leftovers not discoverable")
def write_bytes_faults(exists: bool, fail_at: int, len_i: int, kind: int) -> bool:
    """
    pre: -1 <= fail_at <= 16 and 0 <= len_i <= 2 and 0 <= kind <= 5
    post: _
    """
    fl = [1, 2, 200][len_i]
    fs, raised, killed = _run_write(exists, fail_at, fl, kind, lambda: A.atomic_write_bytes(DEST, NEW))
    return H.verdict(_check(fs, exists, raised, killed))


@H.ob(model="none", quick=300, thorough=900,
      targets=("clematis/io/atomic.py:atomic_replace",),
      stubs=_STUBS,
      bounds="faults restricted to os.replace calls: the first n (0..81) consecutive replace attempts fail with kind in {EIO, ENOSPC, EACCES, EBUSY, kill}; destination pre-exists or not",
      split={"kind": [0, 1, 2, 3, 5]},
      note="C08.b retry loop of atomic_replace: transient sharing violations are retried (<= 80 attempts), non-retryable errors abort, exhausted retries clean up the temp and re-raise; destination stays all-or-nothing throughout")
def replace_retry(exists: bool, nfail: int, kind: int) -> bool:
    """
    pre: 0 <= nfail <= 81 and 0 <= kind <= 5 and kind != 4
    post: _
    """
    fs, raised, killed = _run_write(exists, 0 if nfail > 0 else -1, nfail, kind, lambda: A.atomic_write_bytes(DEST, NEW), only_op="replace")
    ok = _check(fs, exists, raised, killed)
    k = ERR_KINDS[kind]
    if nfail == 0:
        ok = ok and not raised and not killed
    elif k == "KILL":
        ok = ok and killed
    elif k in ("EIO", "ENOSPC"):
        ok = ok and raised and fs.log.count("replace") == 1
    else:
        # retryable: succeeds iff fewer than 80 failures
        ok = ok and (raised == (nfail >= 80)) and fs.log.count("replace") == min(nfail + 1, 80)
    return H.verdict(ok)


@H.ob(model="none", quick=300, thorough=900,
      targets=("clematis/io/atomic.py:atomic_write_text", "clematis/io/atomic.py:atomic_write_json"),
      stubs=_STUBS,
      bounds="text: every string of length <= 3 over the symbolic alphabet (CR, LF included by construction: chars by symbolic index from {a, CR, LF, e-acute, U+2028}); fault window start in [-1, 12], transient, kind in {EIO, short write, kill}",
      split={"kind": [0, 4, 5], "c0": [0, 1, 2, 3, 4]},
      note="C08.c atomic_write_text: bytes on disk are exactly the CRLF-normalised UTF-8 encoding or the old content; same all-or-nothing discipline")
def write_text_faults(c0: int, c1: int, c2: int, n: int, fail_at: int, kind: int) -> bool:
    """
    pre: 0 <= c0 <= 4 and 0 <= c1 <= 4 and 0 <= c2 <= 4 and 0 <= n <= 3
    pre: (n >= 3 or c2 == 0) and (n >= 2 or c1 == 0) and (n >= 1 or c0 == 0)
    pre: -1 <= fail_at <= 12 and 0 <= kind <= 5
    post: _
    """
    alpha = ["a", "\r", "\n", "é", " "]
    text = "".join(alpha[c] for c in (c0, c1, c2)[:n])
    exp = text.replace("\r\n", "\n").encode("utf-8")
    fs = FS({DEST: OLD}, fail_at, 1, kind, watch=DEST, allowed=[OLD, exp])
    undo = install_atomic(fs)
    raised = killed = False
    try:
        try:
            A.atomic_write_text(DEST, text)
        except Killed:
            killed = True
        except Exception:
            raised = True
    finally:
        undo()
    fs.dead = False
    fs.observe()
    cur = fs.files.get(DEST)
    ok = not fs.torn_seen and (cur == exp or cur == OLD)
    if not raised and not killed:
        ok = ok and cur == exp
    if raised:
        ok = ok and cur == OLD and [k for k in fs.files if k != DEST] == []
    ok = ok and not any(_discoverable(k) for k in fs.files if k != DEST)
    return H.verdict(ok)


@H.ob(model="none", quick=300, thorough=900,
      targets=("clematis/io/log.py:rewrite_jsonl", "clematis/engine/snapshot.py:_write_sidecar_meta", "clematis/engine/snapshot.py:write_snapshot"),
      stubs=_STUBS + ("paths.logs_dir -> /d",),
      bounds="caller by symbolic index in {rewrite_jsonl(2 records), _write_sidecar_meta, write_snapshot (body + sidecar = two atomic writes)}; fault window start in [-1, 30], transient or persistent, kind in {EIO, ENOSPC, EACCES, short write, kill}; previous file versions present",
      split={"caller": [0, 1, 2], "kind": [0, 1, 2, 4, 5]},
      note="C08.c callers: every file the caller touches is, at every instant, its complete previous or complete new version; leftovers never look like snapshots/logs; a sidecar failure does not break the body write")
def callers_faults(caller: int, fail_at: int, persistent: bool, kind: int) -> bool:
    """
    pre: 0 <= caller <= 2 and -1 <= fail_at <= 30 and 0 <= kind <= 5 and kind != 3
    post: _
    """
    import json
    import clematis.io.log as L
    import clematis.engine.snapshot as S

    scratch = os.environ.get("VERIF_SCRATCH") or os.getcwd()
    snapdir = os.path.join(scratch, "snapdir")
    body = os.path.join(snapdir, "state_A.json")
    side = body + ".meta"
    logp = "/d/t9.jsonl"
    files = {body: b"OLDBODY", side: b"OLDSIDE", logp: b"OLDLOG\n"}
    fs = FS(files, fail_at, 200 if persistent else 1, kind)
    undo = install_atomic(fs)
    saved_logs = L.paths.logs_dir
    L.paths.logs_dir = lambda: "/d"
    saved_mk = L.os.makedirs
    seen = {body: set(), side: set(), logp: set()}

    def observe():
        for k in seen:
            seen[k].add(fs.files.get(k))

    orig_observe = fs.observe
    fs.observe = lambda: (orig_observe(), observe())
    raised = killed = False
    try:
        try:
            if caller == 0:
                L.os.makedirs = lambda *a, **k: None
                L.rewrite_jsonl("t9.jsonl", [{"a": 1}, {"b": "x"}])
            elif caller == 1:
                S._write_sidecar_meta(body, schema_version="v1")
            else:
                t4 = {"snapshot_dir": snapdir}
                ctx = NS(agent_id="A", turn_id=3, cfg=NS(t4=t4), config=NS(t4=t4))
                S.write_snapshot(ctx, {"store": None}, "7", 0, [])
        except Killed:
            killed = True
        except Exception:
            raised = True
    finally:
        L.os.makedirs = saved_mk
        L.paths.logs_dir = saved_logs
        undo()
    fs.dead = False
    observe()

    def complete_json(b, jsonl=False):
        if b is None:
            return False
        try:
            t = b.decode("utf-8")
            if jsonl:
                return t.endswith("\n") and all(isinstance(json.loads(x), dict) for x in t.splitlines())
            return isinstance(json.loads(t), dict)
        except Exception:
            return False

    ok = True
    for k, olds in ((body, b"OLDBODY"), (side, b"OLDSIDE"), (logp, b"OLDLOG\n")):
        for v in seen[k]:
            ok = ok and (v == olds or complete_json(v, jsonl=(k == logp)))
    leftovers = [k for k in fs.files if k not in (body, side, logp)]
    ok = ok and not any(_discoverable(k) for k in leftovers)
    if not killed and fs.faults_fired <= 1:
        ok = ok and leftovers == []
    if caller == 1:
        ok = ok and not raised  # sidecar failure must not propagate
    if caller == 2 and not raised and not killed:
        ok = ok and complete_json(fs.files.get(body)) and fs.files.get(body) != b"OLDBODY"
    if raised and caller in (0, 2):
        tgt = logp if caller == 0 else body
        ok = ok and fs.files.get(tgt) == (b"OLDLOG\n" if caller == 0 else b"OLDBODY")
    return H.verdict(ok)
