"""C17 — scheduling is deterministic, starvation-free and budgets bind.

Real code under symbolic execution: clematis.engine.scheduler.next_turn / on_yield,
clematis.engine.orchestrator.core._should_yield / _derive_budgets.
"""
from __future__ import annotations

import copy
from types import SimpleNamespace as NS

from engine import symx as H
from clematis.engine.scheduler import next_turn, on_yield
from clematis.engine.orchestrator import core as ocore

Q3 = ["a", "b", "c"]


class Clock:
    def __init__(self, t=0):
        self.t = t

    def now_ms(self):
        return self.t


def _sched(q, last, cons):
    return {"queue": list(q), "last_ran_ms": dict(zip(q, last)), "consec_turns": dict(zip(q, cons))}


def _ref_pick(q, last, cons, now, mct, aging, fair):
    """Independent reference of the documented selection rule."""
    elig = [a for a in q if cons[a] < mct]
    if not elig:
        return min(q), "RESET_CONSEC"
    if not fair:
        return elig[0], "ROUND_ROBIN"
    best, bt = None, None
    for a in sorted(elig):
        idle = now - last[a]
        if idle < 0:
            idle = 0
        tier = idle // aging if aging > 0 else 0
        if bt is None or tier > bt:
            best, bt = a, tier
    return best, "AGING_BOOST"


@H.ob(model="none", quick=240, thorough=600,
      targets=("clematis/engine/scheduler.py:next_turn",),
      bounds="3 agents a<b<c, queue order = symbolic permutation index; consec/last_ran/clock/mct/aging unbounded ints",
      note="C17.a eligibility + determinism + purity lemma from an arbitrary scheduler state")
def elig3(c0: int, c1: int, c2: int, l0: int, l1: int, l2: int, now: int, mct: int, aging: int, fair: bool, perm: int) -> bool:
    """
    pre: 0 <= c0 and 0 <= c1 and 0 <= c2
    pre: mct >= 1 and aging >= 0
    pre: 0 <= perm < 6
    post: _
    """
    perms = [[0, 1, 2], [0, 2, 1], [1, 0, 2], [1, 2, 0], [2, 0, 1], [2, 1, 0]]
    q = [Q3[i] for i in perms[perm]]
    last = dict(zip(Q3, [l0, l1, l2]))
    cons = dict(zip(Q3, [c0, c1, c2]))
    sched = {"queue": list(q), "last_ran_ms": dict(last), "consec_turns": dict(cons)}
    before = copy.deepcopy(sched)
    ctx = Clock(now)
    fc = {"max_consecutive_turns": mct, "aging_ms": aging}
    pol = "fair_queue" if fair else "round_robin"
    agent, budgets, reason = next_turn(ctx, sched, pol, fc)
    if sched != before:
        return False  # selection must not mutate state
    again = next_turn(ctx, sched, pol, fc)
    if again != (agent, budgets, reason):
        return False
    all_sat = all(cons[a] >= mct for a in q)
    if all_sat:
        ok = agent == "a" and reason == "RESET_CONSEC"
    else:
        ok = agent in q and cons[agent] < mct and reason != "RESET_CONSEC"
    exp = _ref_pick(q, last, cons, now, mct, aging, fair)
    return H.verdict(ok and (agent, reason) == exp and budgets == {})


@H.ob(model="none", quick=60, thorough=120,
      targets=("clematis/engine/scheduler.py:on_yield",),
      bounds="3 agents; counters/clock unbounded ints; which agent yields: symbolic index (3 = unknown agent)",
      note="C17.b bookkeeping lemma")
def yield_step(c0: int, c1: int, c2: int, l0: int, l1: int, l2: int, now: int, who: int, reset: bool) -> bool:
    """
    pre: 0 <= c0 and 0 <= c1 and 0 <= c2
    pre: 0 <= who <= 3
    post: _
    """
    sched = _sched(Q3, [l0, l1, l2], [c0, c1, c2])
    agent = Q3[who] if who < 3 else "zz"
    on_yield(Clock(now), sched, agent, {}, "", {"max_consecutive_turns": 2}, reset=reset)
    cons0 = dict(zip(Q3, [c0, c1, c2]))
    last0 = dict(zip(Q3, [l0, l1, l2]))
    ok = sched["queue"] == Q3
    for a in Q3:
        exp_last = now if a == agent else last0[a]
        if reset:
            exp_c = 0
        else:
            exp_c = cons0[a] + 1 if a == agent else cons0[a]
        ok = ok and sched["last_ran_ms"][a] == exp_last and sched["consec_turns"][a] == exp_c
    return H.verdict(ok and set(sched["consec_turns"]) == set(Q3))


def _drive(sched, clock, fair, mct, aging, rotate):
    pol = "fair_queue" if fair else "round_robin"
    fc = {"max_consecutive_turns": mct, "aging_ms": aging}
    agent, _, reason = next_turn(clock, sched, pol, fc)
    on_yield(clock, sched, agent, {}, "", fc, reset=(reason == "RESET_CONSEC"))
    if rotate and not fair:
        q = sched["queue"]
        q.remove(agent)
        q.append(agent)
    return agent


@H.ob(model="none", quick=120, thorough=300,
      targets=("clematis/engine/scheduler.py:next_turn", "clematis/engine/scheduler.py:on_yield"),
      bounds="round_robin, n=3, allowance m=1, 7 selections from an arbitrary state (consec counters unbounded), with/without driver queue rotation",
      note="C17.c starvation bound 2(n-1)m+1 = 5, bounded unrolling cross-check")
def starve_rr3(c0: int, c1: int, c2: int, rotate: bool, perm: int) -> bool:
    """
    pre: 0 <= c0 and 0 <= c1 and 0 <= c2
    pre: 0 <= perm < 6
    post: _
    """
    perms = [[0, 1, 2], [0, 2, 1], [1, 0, 2], [1, 2, 0], [2, 0, 1], [2, 1, 0]]
    q = [Q3[i] for i in perms[perm]]
    sched = {"queue": q, "last_ran_ms": {a: 0 for a in Q3}, "consec_turns": dict(zip(Q3, [c0, c1, c2]))}
    clock = Clock(0)
    n, m = 3, 1
    bound = 2 * (n - 1) * m + 1
    picks = [_drive(sched, clock, False, m, 0, rotate) for _ in range(bound + 2)]
    first = picks[0]
    return H.verdict(first in picks[1:])


@H.ob(model="none", quick=150, thorough=400,
      targets=("clematis/engine/scheduler.py:next_turn", "clematis/engine/scheduler.py:on_yield"),
      bounds="fair_queue, n=2, m=1, 5 selections, every clock advance a symbolic non-negative int, aging symbolic >= 0, arbitrary initial last_ran/consec",
      note="C17.c starvation bound 2(n-1)m+1 = 3 under any clock")
def starve_fq2(c0: int, c1: int, l0: int, l1: int, t0: int, d1: int, d2: int, d3: int, d4: int, aging: int) -> bool:
    """
    pre: 0 <= c0 and 0 <= c1 and aging >= 0
    pre: d1 >= 0 and d2 >= 0 and d3 >= 0 and d4 >= 0
    post: _
    """
    q = ["a", "b"]
    sched = {"queue": q, "last_ran_ms": {"a": l0, "b": l1}, "consec_turns": {"a": c0, "b": c1}}
    clock = Clock(t0)
    picks = []
    for d in (0, d1, d2, d3, d4):
        clock.t = clock.t + d
        picks.append(_drive(sched, clock, True, 1, aging, False))
    return H.verdict(picks[0] in picks[1:])


@H.ob(model="none", quick=None, thorough=600,
      targets=("clematis/engine/scheduler.py:next_turn", "clematis/engine/scheduler.py:on_yield"),
      bounds="fair_queue, n=3, m=1, 7 selections, clock advances chosen by symbolic index from {0, aging, 3*aging}, aging=10, arbitrary initial last_ran in {0,10,30} and consec counters",
      note="C17.c starvation bound 5 for three agents under clock-advance alphabet")
def starve_fq3(c0: int, c1: int, c2: int, i0: int, i1: int, i2: int, a1: int, a2: int, a3: int, a4: int, a5: int, a6: int) -> bool:
    """
    pre: 0 <= c0 <= 2 and 0 <= c1 <= 2 and 0 <= c2 <= 2
    pre: 0 <= i0 <= 2 and 0 <= i1 <= 2 and 0 <= i2 <= 2
    pre: 0 <= a1 <= 2 and 0 <= a2 <= 2 and 0 <= a3 <= 2 and 0 <= a4 <= 2 and 0 <= a5 <= 2 and 0 <= a6 <= 2
    post: _
    """
    alpha = [0, 10, 30]
    sched = {"queue": list(Q3), "last_ran_ms": {"a": alpha[i0], "b": alpha[i1], "c": alpha[i2]},
             "consec_turns": {"a": c0, "b": c1, "c": c2}}
    clock = Clock(30)
    picks = []
    for ai in (0, a1, a2, a3, a4, a5, a6):
        clock.t = clock.t + alpha[ai]
        picks.append(_drive(sched, clock, True, 1, 10, False))
    return H.verdict(picks[0] in picks[1:])


_REASONS = ["BUDGET_T1_ITERS", "BUDGET_T1_POPS", "BUDGET_T2_K", "BUDGET_T3_OPS"]
_KEYS = ["t1_iters", "t1_pops", "t2_k", "t3_ops"]


@H.ob(model="none", quick=90, thorough=200,
      targets=("clematis/engine/orchestrator/core.py:_should_yield",),
      bounds="elapsed/wall/quantum and every budget/consumed pair unbounded ints; presence of wall and of each budget symbolic",
      note="C17.d reason precedence WALL_MS > BUDGET_* > QUANTUM_EXCEEDED")
def yield_precedence(ms: int, wall: int, has_wall: bool, quantum: int,
                     b0: int, b1: int, b2: int, b3: int, u0: int, u1: int, u2: int, u3: int, pres: int) -> bool:
    """
    pre: 0 <= pres < 16
    post: _
    """
    budgets = {"quantum_ms": quantum}
    if has_wall:
        budgets["wall_ms"] = wall
    bs = [b0, b1, b2, b3]
    us = [u0, u1, u2, u3]
    for i, k in enumerate(_KEYS):
        if (pres >> i) & 1:
            budgets[k] = bs[i]
    consumed = {"ms": ms}
    for i, k in enumerate(_KEYS):
        consumed[k] = us[i]
    r = ocore._should_yield({"budgets": budgets, "slice_idx": 1, "started_ms": 0, "agent_id": "a"}, consumed)
    if has_wall and ms >= wall:
        exp = "WALL_MS"
    else:
        exp = None
        for i, k in enumerate(_KEYS):
            if (pres >> i) & 1 and us[i] == bs[i]:
                exp = _REASONS[i]
                break
        if exp is None and ms >= quantum:
            exp = "QUANTUM_EXCEEDED"
    return H.verdict(r == exp)


@H.ob(model="none", quick=60, thorough=120,
      targets=("clematis/engine/orchestrator/core.py:_derive_budgets",),
      bounds="each scheduler budget an unbounded int or absent (symbolic presence mask); quantum unbounded int or absent",
      note="C17.d budgets handed to the stages are exactly the configured ones")
def derive_budgets(v0: int, v1: int, v2: int, v3: int, v4: int, pres: int, q: int, has_q: bool) -> bool:
    """
    pre: 0 <= pres < 32
    post: _
    """
    names = ["t1_pops", "t1_iters", "t2_k", "t3_ops", "wall_ms"]
    vals = [v0, v1, v2, v3, v4]
    b = {}
    for i, k in enumerate(names):
        if (pres >> i) & 1:
            b[k] = vals[i]
    s = {"enabled": True, "budgets": b}
    if has_q:
        s["quantum_ms"] = q
    ctx = NS(cfg={"scheduler": s}, config={"scheduler": s})
    out = ocore._derive_budgets(ctx)
    exp = dict(b)
    exp["quantum_ms"] = q if has_q else 20
    return H.verdict(out == exp)
