"""C04 — apply commits exactly the approved deltas, once, with version discipline.

Real code: clematis.engine.apply.apply_changes/_should_snapshot/_bump_version_etag
(and Orchestrator.run_turn for the kill switch, see c04 histories below).
"""
from __future__ import annotations

from types import SimpleNamespace as NS

from engine import symx as H
import clematis.engine.apply as AP
from clematis.engine.types import ProposedDelta, T4Result

CADENCES = [1, 2, 3, 7, 10]


class RecStore:
    """Recording store double: all-or-nothing batch; configurable failures."""

    def __init__(self, batch_raises, fail_mask, shape):
        self.calls = []
        self.batch_raises = batch_raises
        self.fail_mask = fail_mask
        self.shape = shape
        self.n = 0

    def apply_deltas(self, gid, deltas):
        idx = self.n
        self.n += 1
        self.calls.append((gid, [d.target_id for d in deltas]))
        if idx == 0 and self.batch_raises:
            raise RuntimeError("batch failed")
        if idx > 0:
            # individual call i-1
            if (self.fail_mask >> (idx - 1)) & 1:
                raise ValueError("delta failed")
        if self.shape == 0:
            return {"edits": len(deltas), "clamps": 0}
        if self.shape == 1:
            return NS(edits=len(deltas))  # object without .get
        if self.shape == 2:
            return None
        return {"edits": len(deltas), "clamped": 1}


class RecCM:
    def __init__(self, raises):
        self.inv = []
        self.raises = raises

    def invalidate_namespace(self, ns):
        self.inv.append(ns)
        if self.raises:
            raise RuntimeError("cache broke")
        return 2


def _deltas(n):
    return [ProposedDelta("node", "n%d" % i, "weight", 0.1 * (i + 1), None, i) for i in range(n)]


def _with_snapshot_recorder(fn):
    snaps = []
    old = AP.write_snapshot
    AP.write_snapshot = lambda ctx, state, ver, applied, deltas: (snaps.append((ver, applied, len(deltas))) or "SNAP")
    try:
        return fn(), snaps
    finally:
        AP.write_snapshot = old


@H.ob(model="none", quick=120, thorough=300,
      targets=("clematis/engine/apply.py:_should_snapshot", "clematis/engine/apply.py:apply_changes"),
      stubs=("apply.write_snapshot -> recorder",),
      bounds="turn: unbounded int >= 0; cadence by symbolic index over {1,2,3,7,10} (symbolic % symbolic is non-linear); store present / absent / without apply_deltas",
      note="C04.a a snapshot is written exactly on the configured cadence (turn % n == 0), through every exit of apply_changes")
def cadence(turn: int, ci: int, store_kind: int) -> bool:
    """
    pre: turn >= 0 and 0 <= ci < 5 and 0 <= store_kind <= 2
    post: _
    """
    n = CADENCES[ci]
    t4cfg = {"snapshot_every_n_turns": n, "snapshot_dir": "/nonexistent", "cache_bust_mode": "none"}
    ctx = NS(turn_id=turn, agent_id="A", config=NS(t4=t4cfg), cfg=NS(t4=t4cfg))
    store = [RecStore(False, 0, 0), None, NS()][store_kind]
    state = {"store": store, "version_etag": "4"}
    t4 = T4Result(approved_deltas=_deltas(2), rejected_ops=[], reasons=[], metrics={})
    res, snaps = _with_snapshot_recorder(lambda: AP.apply_changes(ctx, state, t4))
    want = (turn % n) == 0
    ok = (len(snaps) == (1 if want else 0)) and ((res.snapshot_path == "SNAP") == want)
    ok = ok and state["version_etag"] == "5" and res.version_etag == "5"
    if want:
        ok = ok and snaps[0][0] == "5"
    return H.verdict(ok)


@H.ob(model="none", quick=240, thorough=600,
      targets=("clematis/engine/apply.py:apply_changes",),
      stubs=("graph store -> recording double (all-or-nothing batch, symbolic failure pattern, symbolic result shape)", "cache manager -> recording double", "apply.write_snapshot -> recorder"),
      bounds="0..3 approved deltas; batch call raises or not; per-delta failure mask (3 bits); store result shape in {dict, object without .get, None, dict with 'clamped'}; cache-bust mode in {none, on-apply, garbage}; cache manager present/absent/raising; 1..2 configured namespaces",
      split={"n": [0, 1, 2, 3]},
      note="C04.b hand-off: first call = whole approved list in order on g:surface; per-delta calls iff the batch raised, exactly once each in order; version +1; invalidation of exactly the configured namespaces iff on-apply; no exception escapes; applied count consistent")
def handoff(n: int, batch_raises: bool, mask: int, shape: int, bust: int, cm_kind: int, two_ns: bool) -> bool:
    """
    pre: 0 <= n <= 3 and 0 <= mask < 8 and 0 <= shape <= 3 and 0 <= bust <= 2 and 0 <= cm_kind <= 2
    post: _
    """
    nss = ["t2:semantic", "t1:x"] if two_ns else ["t2:semantic"]
    t4cfg = {"snapshot_every_n_turns": 1000, "cache_bust_mode": ["none", "on-apply", "weird"][bust], "cache": {"namespaces": list(nss)}}
    ctx = NS(turn_id=7, agent_id="A", config=NS(t4=t4cfg), cfg=NS(t4=t4cfg))
    store = RecStore(batch_raises, mask, shape)
    cm = [None, RecCM(False), RecCM(True)][cm_kind]
    state = {"store": store, "version_etag": "41"}
    if cm is not None:
        state["_cache_mgr"] = cm
    ds = _deltas(n)
    t4 = T4Result(approved_deltas=list(ds), rejected_ops=[], reasons=[], metrics={})
    try:
        res, snaps = _with_snapshot_recorder(lambda: AP.apply_changes(ctx, state, t4))
    except Exception:
        return False
    ids = [d.target_id for d in ds]
    exp_calls = [("g:surface", ids)]
    exp_applied = 0
    if batch_raises:
        for i, t in enumerate(ids):
            exp_calls.append(("g:surface", [t]))
            if not (mask >> i) & 1 and shape in (0, 3):
                exp_applied += 1
    elif shape in (0, 3):
        exp_applied = n
    ok = store.calls == exp_calls and state["version_etag"] == "42" and res.version_etag == "42" and snaps == []
    ok = ok and res.applied == exp_applied and t4.approved_deltas == ds
    if bust == 1 and cm is not None:
        ok = ok and cm.inv == (nss[:1] if cm_kind == 2 else nss)
        if cm_kind == 1:
            ok = ok and res.metrics["cache_invalidations"] == 2 * len(nss)
    elif cm is not None:
        ok = ok and cm.inv == []
    return H.verdict(ok)


VERSIONS = [(None, "1"), ("v0", "1"), ("", "1"), ("0", "1"), ("9", "10"), ("41", "42"), ("99", "100"), ("099", "100"), (" 7 ", "8"), ("-1", "0"), (12, "13"), ("999999999999", "1000000000000")]


@H.ob(model="none", quick=90, thorough=200,
      targets=("clematis/engine/apply.py:_bump_version_etag", "clematis/engine/apply.py:apply_changes"),
      stubs=("apply.write_snapshot -> recorder",),
      bounds="prior version by symbolic index over 12 concrete shapes (absent, non-numeric, numeric strings incl. leading zeros/whitespace/negative/huge, int); store present / absent / lacking apply_deltas (str(int)/int(str) on symbolic values is out of reach, hence the concrete alphabet)",
      note="C04.c version discipline: numeric versions advance by exactly one through every exit, non-numeric/absent restart at '1'")
def version_bump(vi: int, store_kind: int) -> bool:
    """
    pre: 0 <= vi < 12 and 0 <= store_kind <= 2
    post: _
    """
    prior, exp = VERSIONS[vi]
    t4cfg = {"snapshot_every_n_turns": 1000, "cache_bust_mode": "none"}
    ctx = NS(turn_id=7, agent_id="A", config=NS(t4=t4cfg), cfg=NS(t4=t4cfg))
    store = [RecStore(False, 0, 0), None, NS()][store_kind]
    state = {"store": store}
    if prior is not None:
        state["version_etag"] = prior
    t4 = T4Result(approved_deltas=_deltas(1), rejected_ops=[], reasons=[], metrics={})
    res, snaps = _with_snapshot_recorder(lambda: AP.apply_changes(ctx, state, t4))
    return H.verdict(state["version_etag"] == exp and res.version_etag == exp)


MUTANTS = {}


STR_TURNS = [("0", 0), ("1", 1), ("2", 2), ("3", 3), ("6", 6), ("7", 7), ("10", 10), ("14", 14), ("21", 21), (" 9 ", 9), ("demo-1", 0), ("", 0)]


@H.ob(model="none", quick=120, thorough=300,
      targets=("clematis/engine/apply.py:_should_snapshot", "clematis/engine/apply.py:apply_changes"),
      stubs=("apply.write_snapshot -> recorder",),
      bounds="turn ids as the project's own drivers pass them: numeric strings, padded numeric strings and non-numeric ids (which count as turn 0) by symbolic index over 12; cadence by symbolic index over {1,2,3,7,10}",
      note="C04.a snapshot cadence for string turn ids: a numeric string id snapshots exactly when its number is on the cadence; a non-numeric id counts as turn 0")
def cadence_str(ti: int, ci: int) -> bool:
    """
    pre: 0 <= ti < len(STR_TURNS) and 0 <= ci < 5
    post: _
    """
    n = CADENCES[ci]
    tid, num = STR_TURNS[ti]
    t4cfg = {"snapshot_every_n_turns": n, "snapshot_dir": "/nonexistent", "cache_bust_mode": "none"}
    ctx = NS(turn_id=tid, agent_id="A", config=NS(t4=t4cfg), cfg=NS(t4=t4cfg))
    state = {"store": RecStore(False, 0, 0), "version_etag": "4"}
    t4 = T4Result(approved_deltas=_deltas(1), rejected_ops=[], reasons=[], metrics={})
    res, snaps = _with_snapshot_recorder(lambda: AP.apply_changes(ctx, state, t4))
    want = (num % n) == 0
    ok = (len(snaps) == (1 if want else 0)) and ((res.snapshot_path == "SNAP") == want) and state["version_etag"] == "5"
    return H.verdict(ok)
