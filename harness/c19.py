"""C19 — reflection is gated, budgeted and cannot disturb the turn.

Real code: clematis.engine.orchestrator.core._run_reflection_if_enabled / run_turn, clematis.engine.stages.t3.reflect
(reflect, _reflect_rulebased, _reflect_llm, _truncate_tokens), clematis.engine.orchestrator.reflection
(write_reflection_entries, _episode_id, _now_iso_from_ctx).
"""
from __future__ import annotations

import copy
from types import SimpleNamespace as NS

from engine import symx as H
from harness import world as W
import clematis.engine.orchestrator.core as OC
import importlib

RF = importlib.import_module("clematis.engine.stages.t3.reflect")  # the package re-exports a function named `reflect`
import clematis.engine.orchestrator.reflection as RW


def pick(lst, i):
    for j, v in enumerate(lst):
        if i == j:
            return v
    raise IndexError(i)


class FakeClock:
    """Stands in for the `time` module inside orchestrator.core: perf_counter returns the given readings in turn."""

    def __init__(self, readings):
        self.readings = list(readings)
        self.i = 0

    def perf_counter(self):
        v = self.readings[min(self.i, len(self.readings) - 1)]
        self.i += 1
        return v

    def time(self):
        return 1.7e9


# ----------------------------------------------------------------------------- C19.a gate
@H.ob(model="realfin", quick=300, thorough=600,
      targets=("clematis/engine/orchestrator/core.py:_run_reflection_if_enabled",),
      stubs=("reflect -> spy returning one entry / raising; orchestrator.core.time -> fake clock with two symbolic perf_counter readings",),
      bounds="allow_reflection, plan.reflection, stashed planner flag, dry-run: symbolic bools; reflect raises or not; perf_counter readings t0 <= t1 symbolic reals; wall budget time_ms_reflection absent or symbolic int >= 0; state as dict",
      note="C19.a gate: the reflect stage is called iff allowed AND (plan flag OR stashed flag) AND NOT dry-run; on error or when the measured time exceeds the wall budget no entries survive and the reason is reported; the result stashed on ctx is the returned one")
def gate(allow: bool, plan_flag: bool, stashed: bool, dry: bool, raises: bool, t0: float, t1: float, has_budget: bool, budget: int) -> bool:
    """
    pre: 0.0 <= t0 <= t1 and t1 <= 1e6 and budget >= 0
    post: _
    """
    calls = []

    def spy(bundle, cfg, embedder=None):
        calls.append(bundle)
        if raises:
            raise RuntimeError("reflect broke")
        return RF.ReflectionResult(summary="s", memory_entries=[{"text": "s", "owner": "A"}], metrics={"backend": "rulebased"})

    budgets = {"time_ms_reflection": budget} if has_budget else {}
    cfg = W.to_attr({"t3": {"allow_reflection": allow, "reflection": {"topk_snippets": 2, "backend": "rulebased"}}, "scheduler": {"budgets": budgets}})
    ctx = NS(cfg=cfg, config=cfg, turn_id=3, agent_id="A")
    if dry:
        ctx._dry_run_until_t4 = True
    state = {"_planner_reflection_flag": stashed}
    plan = NS(reflection=plan_flag, ops=[])
    saved = (OC.time, OC.reflect, OC._get_stage_callable)
    OC.time = FakeClock([t0, t1])
    OC.reflect = spy
    OC._get_stage_callable = lambda name, default: spy if name == "reflect" else default
    saved_imp = OC.importlib
    OC.importlib = NS(import_module=lambda n: NS(reflect=spy))
    try:
        try:
            res = OC._run_reflection_if_enabled(ctx, state, plan, "utter", NS(retrieved=[]))
        except Exception:
            return False
    finally:
        OC.time, OC.reflect, OC._get_stage_callable = saved
        OC.importlib = saved_imp
    should = allow and (plan_flag or stashed) and not dry
    if not should:
        return H.verdict(res is None and calls == [] and not hasattr(ctx, "_reflection_result"))
    ok = len(calls) == 1 and res is not None and getattr(ctx, "_reflection_result", None) is res
    elapsed_ms = round((t1 - t0) * 1000.0, 3)
    if raises:
        ok = ok and res.memory_entries == [] and str(res.metrics.get("reason", "")).startswith("reflect_error")
    elif has_budget and elapsed_ms > budget:
        ok = ok and res.memory_entries == [] and res.metrics.get("reason") == "reflection_timeout"
    else:
        ok = ok and len(res.memory_entries) == 1 and res.metrics.get("reason") is None
    return H.verdict(ok)


# ----------------------------------------------------------------------------- C19.b budgets
UTTER = ["", "hello world", "Hello,   World!!  again", "tab\tseparated\ttokens here", "multi\nline\ntext", "unicode　ideographic　space", "été  déjà-vu", "a b c d e f g", "   ", "x" * 40]
SNIPS = [[], ["one two"], ["one two", "three\tfour five"], ["a", "b", "c", "d"], [None, 7, "ok"]]


@H.ob(model="none", quick=300, thorough=600,
      targets=("clematis/engine/stages/t3/reflect.py:reflect", "clematis/engine/stages/t3/reflect.py:_reflect_rulebased", "clematis/engine/stages/t3/reflect.py:_truncate_tokens", "clematis/engine/stages/t3/reflect.py:_normalize"),
      bounds="utterance by symbolic index over 10 texts (empty, punctuation, tabs, newlines, unicode spaces, long token) and snippet list over 5 lists (incl. non-strings); token limit and ops cap: unbounded symbolic ints (0 and negatives included); topk 0..4; embed on/off",
      split={"ui": list(range(len(UTTER))), "si": list(range(len(SNIPS)))},
      note="C19.b rule-based reflection: at most one entry and at most ops_cap entries, the summary has at most max(limit,0) whitespace tokens and the reported summary_len is exact; pure (same inputs, same result; bundle untouched)")
def rulebased_budget(ui: int, si: int, limit: int, ops_cap: int, topk: int, embed: bool) -> bool:
    """
    pre: 0 <= ui < len(UTTER) and 0 <= si < len(SNIPS) and 0 <= topk <= 4
    post: _
    """
    cfg = {"t3": {"reflection": {"backend": "rulebased", "summary_tokens": limit, "topk_snippets": topk, "embed": embed}}, "scheduler": {"budgets": {"ops_reflection": ops_cap}}}
    ctx = NS(agent_id="A", turn_id=4, now_iso="2025-01-01T00:00:00Z")
    snips = list(pick(SNIPS, si))
    b = RF.ReflectionBundle(ctx=ctx, state_view={}, plan=NS(reflection=True), utter=pick(UTTER, ui), snippets=snips)
    try:
        r1 = RF.reflect(b, cfg, embedder=(lambda s: [0.5, 0.25]))
        r2 = RF.reflect(b, cfg, embedder=(lambda s: [0.5, 0.25]))
    except Exception:
        return False
    lim = limit if limit > 0 else 0
    cap = ops_cap if ops_cap > 0 else 0
    ok = r1 == r2 and b.snippets == snips
    ok = ok and len(r1.memory_entries) <= 1 and len(r1.memory_entries) <= cap
    ok = ok and len(r1.summary.split()) <= lim and r1.metrics["summary_len"] == len(r1.summary.split())
    for e in r1.memory_entries:
        ok = ok and len(str(e["text"]).split()) <= lim and e["owner"] == "A" and e["ts"] == "2025-01-01T00:00:00Z"
    return H.verdict(ok)


FIXTEXT = ["short answer", "tab\tseparated\ttokens\there", "new\nline\nseparated\ntokens", "mixed \t  white\n\nspace  run", "one", "　ideographic　sep　tokens", "a b c d e f"]


@H.ob(model="none", quick=300, thorough=600,
      targets=("clematis/engine/stages/t3/reflect.py:_reflect_llm", "clematis/engine/stages/t3/reflect.py:_truncate_tokens"),
      stubs=("reflect.FixtureLLMAdapter -> stub returning a text chosen by symbolic index (7 texts with tabs/newlines/unicode spaces) or raising LLMAdapterError / returning empty",),
      bounds="fixture text by symbolic index over 7 texts; token limit by index over {-1,0,1,2,3,100} (it enters the hashed JSON prompt), ops cap unbounded symbolic int; adapter fault by index {none, missing fixture, init error, empty text}",
      split={"fi": list(range(len(FIXTEXT)))},
      note="C19.b LLM-fixture reflection: summary within the token limit (whitespace tokens), at most one entry and at most ops_cap; a missing fixture / adapter error raises FixtureMissingError (the orchestrator turns it into 'no entries')")
def llm_budget(fi: int, li: int, ops_cap: int, fault: int) -> bool:
    """
    pre: 0 <= fi < len(FIXTEXT) and 0 <= fault <= 3 and 0 <= li <= 5
    post: _
    """
    text = pick(FIXTEXT, fi)
    limit = pick([-1, 0, 1, 2, 3, 100], li)  # the limit is part of the JSON prompt that is hashed into the fixture key

    class Stub:
        def __init__(self, path):
            if fault == 2:
                raise RF.LLMAdapterError("init")

        def generate(self, prompt, max_tokens=0, temperature=0.0):
            if fault == 1:
                raise RF.LLMAdapterError("missing")
            return NS(text="" if fault == 3 else text)

    cfg = {"t3": {"reflection": {"backend": "llm", "summary_tokens": limit, "topk_snippets": 2, "embed": False}, "llm": {"fixtures": {"enabled": True, "path": "fx.jsonl"}}},
           "scheduler": {"budgets": {"ops_reflection": ops_cap}}}
    ctx = NS(agent_id="A", turn_id=4, now_iso="2025-01-01T00:00:00Z")
    b = RF.ReflectionBundle(ctx=ctx, state_view={}, plan=NS(reflection=True), utter="hi there", snippets=["s one"])
    saved = RF.FixtureLLMAdapter
    RF.FixtureLLMAdapter = Stub
    try:
        try:
            r = RF.reflect(b, cfg)
        except RF.FixtureMissingError:
            return H.verdict(fault != 0)
        except Exception:
            return False
    finally:
        RF.FixtureLLMAdapter = saved
    lim = limit if limit > 0 else 0
    cap = ops_cap if ops_cap > 0 else 0
    ok = fault == 0 and len(r.memory_entries) <= 1 and len(r.memory_entries) <= cap
    ok = ok and len(r.summary.split()) <= lim and r.metrics["summary_len"] == len(r.summary.split())
    return H.verdict(ok)


@H.ob(model="none", quick=300, thorough=600,
      targets=("clematis/engine/orchestrator/reflection.py:write_reflection_entries", "clematis/engine/orchestrator/reflection.py:_episode_id", "clematis/engine/orchestrator/reflection.py:_now_iso_from_ctx", "clematis/engine/orchestrator/reflection.py:_normalize_entry"),
      bounds="0..3 entries; ops cap by index over {-1,0,1,2,5}; index present / missing / add raising on a symbolic subset (mask); ctx.now_ms by index over {0,999,1000,61001} with or without now_iso; two calls under different wall clocks (time.time patched)",
      split={"n": [0, 1, 2, 3], "idx_kind": [0, 1, 2]},
      note="C19.b/c writer: at most min(cap, entries) episodes are added, none when the cap is <= 0 or the index is missing, add errors are reported not raised; ids and timestamps are functions of (agent, turn, slot, text, turn clock) only - identical under a different wall clock")
def writer(n: int, ci: int, idx_kind: int, mask: int, mi: int, has_iso: bool) -> bool:
    """
    pre: 0 <= n <= 3 and 0 <= idx_kind <= 2 and 0 <= mask < 8 and 0 <= mi <= 3 and 0 <= ci <= 4
    post: _
    """
    ops_cap = pick([-1, 0, 1, 2, 5], ci)  # rendered into the report's reason string: concrete alphabet
    now_ms = pick([0, 999, 1000, 61001], mi)  # rendered with str formatting: concrete alphabet
    import time as _time

    def run(wall):
        added = []

        class Idx:
            kind = "stub"

            def add(self, ep):
                if idx_kind == 2 and (mask >> len(added_calls)) % 2 == 1:
                    added_calls.append("x")
                    raise ValueError("add failed")
                added_calls.append("ok")
                added.append(ep)

        added_calls = []
        state = {} if idx_kind == 1 else {"memory_index": Idx()}
        ctx = NS(agent_id="A", turn_id=7, now_ms=now_ms)
        if has_iso:
            ctx.now_iso = "2025-02-02T00:00:00+00:00"
        res = NS(memory_entries=[{"text": "entry %d" % i, "tags": ["reflection"], "kind": "summary"} for i in range(n)])
        cfg = {"scheduler": {"budgets": {"ops_reflection": ops_cap}}}
        saved = _time.time
        _time.time = lambda: wall
        try:
            rep = RW.write_reflection_entries(ctx, state, cfg, res)
        finally:
            _time.time = saved
        return rep, added

    try:
        rep1, a1 = run(1.0e9)
        rep2, a2 = run(2.0e9)
    except Exception:
        return False
    cap = ops_cap if ops_cap > 0 else 0
    ok = a1 == a2 and rep1 == rep2 and len(a1) <= min(cap, n) and rep1.ops_written == len(a1)
    if idx_kind == 0:
        ok = ok and len(a1) == min(cap, n)
    if idx_kind == 1 or cap == 0 or n == 0:
        ok = ok and a1 == []
    ids = [e["id"] for e in a1]
    ok = ok and len(set(ids)) == len(ids) and all(e["ts"] == (("2025-02-02T00:00:00+00:00") if has_iso else e["ts"]) for e in a1)
    return H.verdict(ok)


# ----------------------------------------------------------------------------- C19.d isolation and faults through run_turn
FAULTS = ["none", "reflect_raises", "fixture_missing", "index_add_raises", "log_raises", "timeout", "writer_raises"]


def _turn(reflection_on, fault, dry=False):
    W.reset_globals()
    reflection_on = True if reflection_on else False
    over = {"t1": {"decay": {"mode": "exp_floor", "rate": 0.6, "floor": 0.05}},
            "t3": {"allow_reflection": reflection_on, "reflection": {"backend": "rulebased", "summary_tokens": 8, "topk_snippets": 2, "embed": False, "log": True}},
            "t4": {"snapshot_every_n_turns": 1000},
            "scheduler": {"budgets": {"ops_reflection": 2, "time_ms_reflection": 5000}}}
    cfg = W.make_cfg(over, memo=("c19", reflection_on))
    state = W.make_state()
    added = []

    class Idx:
        def add(self, ep):
            if fault == "index_add_raises":
                raise RuntimeError("index down")
            added.append(ep)

    state["memory_index"] = Idx()
    state["_planner_reflection_flag"] = True
    ctx = W.make_ctx(cfg, turn_id=2, agent="A", now_ms=1000)
    saved = (RF.reflect, OC.log_t3_reflection, RW.write_reflection_entries, OC.time)
    if fault == "reflect_raises":
        RF.reflect = lambda *a, **k: (_ for _ in ()).throw(KeyError("boom"))
    elif fault == "fixture_missing":
        RF.reflect = lambda *a, **k: (_ for _ in ()).throw(RF.FixtureMissingError("no fixture"))
    elif fault == "log_raises":
        OC.log_t3_reflection = lambda *a, **k: (_ for _ in ()).throw(OSError("disk"))
    elif fault == "writer_raises":
        RW.write_reflection_entries = lambda *a, **k: (_ for _ in ()).throw(TypeError("writer"))
    elif fault == "timeout":
        class Slow:
            def __init__(self):
                self.t = 0.0

            def perf_counter(self):
                self.t += 10.0
                return self.t

            def time(self):
                return 1.7e9

        OC.time = Slow()
    try:
        res, spy = W.run_turn(ctx, state, "alpha beta")
    finally:
        RF.reflect, OC.log_t3_reflection, RW.write_reflection_entries, OC.time = saved
        W.reset_globals()
    canon = [(n, r) for n, r in W.canonical(spy.records) if n != "health.jsonl"]
    return res.line, canon, added, spy.by_stream("t3_reflection.jsonl")


@H.ob(model="none", quick=400, thorough=900, per_path=200,
      targets=("clematis/engine/orchestrator/core.py:Orchestrator.run_turn", "clematis/engine/orchestrator/core.py:_run_reflection_if_enabled", "clematis/engine/orchestrator/reflection.py:write_reflection_entries", "clematis/engine/orchestrator/logging.py:log_t3_reflection"),
      stubs=("TurnSpy log/snapshot capture; memory_index -> recording stub", "fault injected at the named reflection site"),
      bounds="one real run_turn on world W3/M3 with reflection allowed+requested vs reflection not allowed; fault site by index over {none, reflect raises, fixture missing, index.add raises, log raises, timeout (slow perf counter), writer raises}",
      split={"fi": list(range(len(FAULTS)))},
      note="C19.d isolation: the utterance and the canonical T1/T2/T4/apply/turn records are identical with reflection on, off, and under every injected reflection fault; on error/missing fixture/timeout nothing is added to the memory index; without a fault at most ops_cap entries are added and one reflection log line is written")
def turn_isolation(fi: int) -> bool:
    """
    pre: 0 <= fi < len(FAULTS)
    post: _
    """
    fault = pick(FAULTS, fi)
    try:
        on = _turn(True, fault)
        off = _turn(False, "none")
    except Exception:
        return False
    ok = on[0] == off[0] and on[1] == off[1] and off[2] == [] and off[3] == []
    if fault in ("reflect_raises", "fixture_missing", "index_add_raises", "timeout", "writer_raises"):
        ok = ok and on[2] == []
    else:
        ok = ok and 1 <= len(on[2]) <= 2
    if fault == "none":
        ok = ok and len(on[3]) == 1 and len(str(on[2][0]["text"]).split()) <= 8
    return H.verdict(ok)
