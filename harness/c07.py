"""C07 — delta snapshots reconstruct the full payload exactly.

Real code: clematis.engine.util.snapshot_delta.compute_delta/apply_delta and the
delta branches of clematis.engine.snapshot.read_snapshot / write_snapshot_auto /
load_latest_snapshot.
"""
from __future__ import annotations

import copy
import json
from types import SimpleNamespace as NS
from typing import Dict

from engine import symx as H
from clematis.engine.util.snapshot_delta import compute_delta, apply_delta
import clematis.engine.snapshot as S

ABSENT = object()


def _vals():
    if H.THOROUGH:
        return [1, 2, [1], {}, {"x": 1}, {"x": 2, "y": {"z": 1}}, None, "s", {"x": {}}, [1, {"x": 1}]]
    return [1, [1], {}, {"x": 1}, {"x": 2, "y": {"z": 1}}, None]


NV = len(_vals())  # index NV = key absent


def _strict_eq(a, b) -> bool:
    """JSON-level equality: types matter (1 vs true vs 1.0), dict key order does not."""
    if type(a) is not type(b):
        return False
    if isinstance(a, dict):
        if set(a.keys()) != set(b.keys()):
            return False
        return all(_strict_eq(a[k], b[k]) for k in a)
    if isinstance(a, list):
        return len(a) == len(b) and all(_strict_eq(x, y) for x, y in zip(a, b))
    return a == b


def _build(keys, idxs):
    vals = _vals()
    d = {}
    for k, i in zip(keys, idxs):
        if i < len(vals):
            d[k] = copy.deepcopy(vals[i])
    return d


def _law(base, cur, full=True) -> bool:
    b0, c0 = copy.deepcopy(base), copy.deepcopy(cur)
    delta = compute_delta(base, cur)
    out = apply_delta(base, delta)
    # inputs untouched, result exact, idempotent on the result
    ok = _strict_eq(base, b0) and _strict_eq(cur, c0) and _strict_eq(out, cur)
    if full:
        ok = ok and compute_delta(out, cur) == {"_adds": {}, "_mods": {}, "_dels": []}
    return ok


@H.ob(model="none", quick=300, thorough=600,
      targets=("clematis/engine/util/snapshot_delta.py:compute_delta", "clematis/engine/util/snapshot_delta.py:apply_delta", "clematis/engine/util/snapshot_delta.py:_walk_diff", "clematis/engine/util/snapshot_delta.py:_set_path", "clematis/engine/util/snapshot_delta.py:_del_path"),
      bounds="base and current each hold keys {a, é} (identifier-like / unicode), every key absent or one of 6 values quick / 10 thorough (ints, list, empty dict, nested dicts 2 deep, None, str, list with dict): the full (NV+1)^4 product, split over the value of base['a']",
      split={"ba": list(range(NV + 1))},
      note="C07.a round-trip law, exhaustive over a finite shape alphabet with identifier-like keys: apply(base, compute(base, cur)) == cur exactly (type-strict), inputs not mutated")
def law_ident(ba: int, bb: int, ca: int, cb: int) -> bool:
    """
    pre: 0 <= ba <= NV and 0 <= bb <= NV and 0 <= ca <= NV and 0 <= cb <= NV
    post: _
    """
    return H.verdict(_law(_build(["a", "é"], [ba, bb]), _build(["a", "é"], [ca, cb])))


BS = chr(92)
ODD = ["a.b", ".", "", "a.", "a", BS, "a" + BS, BS + ".", BS + BS]


@H.ob(model="none", quick=300, thorough=600,
      targets=("clematis/engine/util/snapshot_delta.py:compute_delta", "clematis/engine/util/snapshot_delta.py:apply_delta"),
      bounds="one top-level key chosen by symbolic index from 9 odd keys (dots, empty, trailing dot, the escape character itself: backslash, trailing backslash, backslash-dot, double backslash) plus the plain key 'n' holding a nested dict whose inner key is again chosen from that alphabet (quick: the same odd key or the plain key; thorough: every pair); top-level values from the value alphabet or absent, nested values from {1, {x:1}, absent} on both sides",
      split=({"ki": list(range(9)), "kn": list(range(9))} if H.THOROUGH else {"ki": list(range(9))}),
      note="C07.a round-trip law for keys with dots / empty strings / backslashes (top level and nested, with changes below them)")
def law_odd_keys(ki: int, kn: int, bv: int, cv: int, bn: int, cn: int) -> bool:
    """
    pre: 0 <= ki <= 8 and 0 <= kn <= 8 and 0 <= bv <= NV and 0 <= cv <= NV and 0 <= bn <= 2 and 0 <= cn <= 2
    pre: H.THOROUGH or kn == ki or kn == 4
    post: _
    """
    vals = _vals()
    base, cur = {}, {}
    if bv < NV:
        base[ODD[ki]] = copy.deepcopy(vals[bv])
    if cv < NV:
        cur[ODD[ki]] = copy.deepcopy(vals[cv])
    nested = [1, {"x": 1}]
    if bn < 2:
        base.setdefault("n", {})[ODD[kn]] = copy.deepcopy(nested[bn])
    if cn < 2:
        cur.setdefault("n", {})[ODD[kn]] = copy.deepcopy(nested[cn])
    return H.verdict(_law(base, cur))


BELOW = [{"x": 1}, {"x": 2}, {"x": 1, "y": {"z": 1}}, {"x": 1, "y": {"z": 2}}]


@H.ob(model="none", quick=300, thorough=600,
      targets=("clematis/engine/util/snapshot_delta.py:compute_delta", "clematis/engine/util/snapshot_delta.py:apply_delta", "clematis/engine/util/snapshot_delta.py:_split_path"),
      bounds="an odd key (9-key alphabet of law_odd_keys) holding a dict at top level and again inside the plain key 'n'; the dicts on both sides by symbolic index over {x:1}, {x:2}, {x:1,y:{z:1}}, {x:1,y:{z:2}}: the change lies one or two levels BELOW the odd key, so its escaped form is a middle component of the delta path",
      split={"ki": list(range(9))},
      note="C07.a round-trip law for changes below keys with dots / empty strings / backslashes")
def law_below_odd(ki: int, b1: int, c1: int, b2: int, c2: int) -> bool:
    """
    pre: 0 <= ki <= 8 and 0 <= b1 <= 3 and 0 <= c1 <= 3 and 0 <= b2 <= 3 and 0 <= c2 <= 3
    post: _
    """
    k = ODD[ki]
    base = {k: copy.deepcopy(BELOW[b1]), "n": {k: copy.deepcopy(BELOW[b2])}}
    cur = {k: copy.deepcopy(BELOW[c1]), "n": {k: copy.deepcopy(BELOW[c2])}}
    return H.verdict(_law(base, cur))


@H.ob(model="none", quick=300, thorough=900,
      targets=("clematis/engine/util/snapshot_delta.py:compute_delta", "clematis/engine/util/snapshot_delta.py:apply_delta"),
      bounds="scalars replacing one another under one key: both sides by symbolic index over {0, 1, True, False, 1.0, 0.0, '', '1', None, [], {}, [0], [False]}",
      note="C07.a scalar replacement is exact at the JSON level (1 vs true vs 1.0 are different JSON values)")
def law_scalars(bi: int, ci: int, nested: bool) -> bool:
    """
    pre: 0 <= bi <= 12 and 0 <= ci <= 12
    post: _
    """
    sc = [0, 1, True, False, 1.0, 0.0, "", "1", None, [], {}, [0], [False]]
    base = {"k": copy.deepcopy(sc[bi])}
    cur = {"k": copy.deepcopy(sc[ci])}
    if nested:
        base, cur = {"o": base, "same": 1}, {"o": cur, "same": 1}
    return H.verdict(_law(base, cur))


@H.ob(model="none", quick=200, thorough=900, bughunt=True,
      targets=("clematis/engine/util/snapshot_delta.py:compute_delta", "clematis/engine/util/snapshot_delta.py:apply_delta"),
      bounds="open search: base/current = Dict[str,int] with fully symbolic string keys (length <= 3), not expected to exhaust",
      note="C07.b bug-hunting over symbolic keys (evidence, not a bound)")
def law_open_keys(base: Dict[str, int], cur: Dict[str, int]) -> bool:
    """
    pre: len(base) <= 2 and len(cur) <= 2
    pre: all(len(k) <= 3 for k in base) and all(len(k) <= 3 for k in cur)
    post: _
    """
    out = apply_delta(base, compute_delta(base, cur))
    return H.verdict(out == cur)


# ----------------------------------------------------------------------------- C07.c reader / writer fallback
# "keep" is identical on both sides: a delta applied to a wrong or empty base cannot reproduce it
FULL_A = {"version_etag": "A", "store": {"w": 1}, "k": {"x": 1}, "keep": {"z": [1, 2]}, "n": 7}
FULL_B = {"version_etag": "B", "store": {"w": 2}, "k": {"y": 2}, "keep": {"z": [1, 2]}, "n": 7}


class FakeDir:
    """Stub of the two file-access helpers of clematis.engine.snapshot."""

    def __init__(self, have_base, have_delta, have_full, hdr_mode, delta_of_ok, base_corrupt):
        self.files = {}
        if have_base:
            self.files["/d/snapshot-A.full.json"] = ("RAISE", None) if base_corrupt else ({"mode": "full", "etag_to": "A"}, copy.deepcopy(FULL_A))
        if have_delta:
            hdr = {"mode": ["delta", "full", "weird"][hdr_mode], "etag_to": "B", "delta_of": "A" if delta_of_ok else "Z", "etag_from": "A" if delta_of_ok else "Z"}
            self.files["/d/snapshot-B.delta.json"] = (hdr, compute_delta(FULL_A, FULL_B))
        if have_full:
            self.files["/d/snapshot-B.full.json"] = ({"mode": "full", "etag_to": "B"}, copy.deepcopy(FULL_B))

    def find(self, root, stem):
        p = "/d/" + stem + ".json"
        return p if p in self.files else None

    def read(self, path):
        h, p = self.files[str(path)]
        if h == "RAISE":
            raise ValueError("corrupt baseline")
        return copy.deepcopy(h), copy.deepcopy(p)


def _with_dir(fd, fn):
    saved = (S._find_snapshot_file, S._read_header_payload)
    S._find_snapshot_file = fd.find
    S._read_header_payload = fd.read
    try:
        return fn()
    finally:
        S._find_snapshot_file, S._read_header_payload = saved


@H.ob(model="none", quick=200, thorough=400,
      targets=("clematis/engine/snapshot.py:read_snapshot",),
      stubs=("snapshot._find_snapshot_file / _read_header_payload -> in-memory directory with symbolic presence of baseline/delta/full, header mode, delta_of match, corrupt baseline",),
      bounds="one baseline A, one target B; presence bits, header mode in {delta, full, weird}, delta_of right/wrong, baseline corrupt or not; reader entered by etag and by path",
      note="C07.c read_snapshot returns the full payload B, or {} (absence), or raises on a corrupt baseline - never apply_delta(wrong-or-empty base, delta) presented as state")
def reader_fallback(have_base: bool, have_delta: bool, have_full: bool, hdr_mode: int, delta_of_ok: bool, base_corrupt: bool, by_path: bool) -> bool:
    """
    pre: 0 <= hdr_mode <= 2
    post: _
    """
    fd = FakeDir(have_base, have_delta, have_full, hdr_mode, delta_of_ok, base_corrupt)

    def go():
        if by_path:
            if not have_delta:
                return "SKIP"
            return S.read_snapshot(path="/d/snapshot-B.delta.json")
        return S.read_snapshot(root="/d", etag_to="B")

    try:
        out = _with_dir(fd, go)
    except ValueError:
        return H.verdict(have_base and base_corrupt)
    if out == "SKIP":
        return True
    if by_path and have_delta and hdr_mode != 0:
        # a file whose header does not say "delta" is returned as it is (caller asked for that path)
        return H.verdict(out == compute_delta(FULL_A, FULL_B))
    return H.verdict(out == FULL_B or out == {})


@H.ob(model="none", quick=200, thorough=400,
      targets=("clematis/engine/snapshot.py:load_latest_snapshot",),
      stubs=("snapshot._pick_latest_snapshot_path -> the delta file; os.path.isfile -> True; _find_snapshot_file/_read_header_payload -> in-memory directory",),
      bounds="as reader_fallback; loader entered on a delta file",
      note="C07.c boot loader on a delta snapshot: state receives the reconstructed payload B (version B) or nothing is loaded; never a version/ state taken from an un-reconstructed delta")
def loader_fallback(have_base: bool, delta_of_ok: bool, base_corrupt: bool) -> bool:
    """
    post: _
    """
    fd = FakeDir(have_base, True, False, 0, delta_of_ok, base_corrupt)
    saved = (S._pick_latest_snapshot_path, S.os.path.isfile)
    state = {"store": None}
    t4 = {"snapshot_dir": "/d"}
    ctx = NS(agent_id="A", turn_id=1, cfg=NS(t4=t4), config=NS(t4=t4))
    S._pick_latest_snapshot_path = lambda d: "/d/snapshot-B.delta.json"
    S.os.path.isfile = lambda p: True
    try:
        rep = _with_dir(fd, lambda: S.load_latest_snapshot(ctx, state))
    finally:
        S._pick_latest_snapshot_path, S.os.path.isfile = saved
    good_base = have_base and delta_of_ok and not base_corrupt
    if good_base:
        return H.verdict(rep["loaded"] is True and state.get("version_etag") == "B")
    # no usable baseline: nothing may be presented as loaded state
    return H.verdict(rep["loaded"] is False and "version_etag" not in state)


# ----------------------------------------------------------------------------- C07.d on-disk round trip (real files)
SPECIAL = [" ", " ", "\x85", "\r", "\n", "\x1c", "\x0b", "\x0c", "é", "\\", '"', "\x00", "a.b", "퟿"]


@H.ob(model="none", quick=300, thorough=600, split={"where": [0, 1, 2, 3]},
      targets=("clematis/engine/snapshot.py:write_snapshot_auto", "clematis/engine/snapshot.py:read_snapshot", "clematis/engine/snapshot.py:_read_header_payload", "clematis/engine/snapshot.py:_write_lines", "clematis/engine/snapshot.py:_canonical_json"),
      bounds="real files in a scratch directory, codec none; payloads hold one string drawn by symbolic index from 14 special strings (unicode line separators, CR/LF, control chars, quote/backslash, dotted) placed by symbolic index in a baseline value / current value / current key / baseline key; baseline file kept or removed before reading; reader entered by etag and by path",
      note="C07.d a delta-mode snapshot written to disk and read back with its baseline returns the full payload; with the baseline removed the reader reports the full file or absence")
def disk_roundtrip(ci: int, where: int, drop_base: bool, by_path: bool) -> bool:
    """
    pre: 0 <= ci < 14 and 0 <= where <= 3
    post: _
    """
    import os
    import shutil

    root = os.path.join(os.environ.get("VERIF_SCRATCH") or os.getcwd(), "c07disk")
    shutil.rmtree(root, ignore_errors=True)
    sp = SPECIAL[ci]
    base = {"version_etag": "A", "k": {"x": 1, "gone": [1, 2]}, "s": "plain"}
    cur = {"version_etag": "B", "k": {"x": 2, "new": {"y": None}}, "s": "plain"}
    if where == 0:
        base["s"] = "p" + sp + "q"
    elif where == 1:
        cur["s"] = "p" + sp + "q"
    elif where == 2:
        cur["k"][sp] = 5
    else:
        base["k"][sp] = 5
    p_full, d0 = S.write_snapshot_auto(root, etag_from=None, etag_to="A", payload=base, delta_mode=False)
    p_delta, wrote_delta = S.write_snapshot_auto(root, etag_from="A", etag_to="B", payload=cur, delta_mode=True)
    ok = (d0 is False) and (wrote_delta is True)
    if drop_base:
        os.remove(p_full)
    try:
        out = S.read_snapshot(path=p_delta) if by_path else S.read_snapshot(root=root, etag_to="B")
    finally:
        shutil.rmtree(root, ignore_errors=True)
    if drop_base:
        return H.verdict(ok and out == {})
    return H.verdict(ok and _strict_eq(out, cur))
