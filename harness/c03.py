"""C03 — meta-filter output always stays inside the safety envelope.

Real code: clematis.engine.stages.t4.t4_filter and its helpers, executed
symbolically over delta values, caps, turn numbers, cooldown history, target
collisions and listing order.
"""
from __future__ import annotations

import copy
import math
from types import SimpleNamespace as NS

from engine import symx as H
import clematis.engine.stages.t4 as T4
from clematis.engine.types import ProposedDelta, Plan, OpRef

TGT = ["x", "y", "z"]
PERMS = [[0, 1, 2], [0, 2, 1], [1, 0, 2], [1, 2, 0], [2, 0, 1], [2, 1, 0]]
KINDS = ["EditGraph", "CreateGraph", "Speak"]

_REAL_SQRT = T4.sqrt


def install():
    # real-model obligations: sqrt as an SMT lemma (r >= 0 and r*r == s); native runs use math.sqrt
    T4.sqrt = H.sym_sqrt


def _ieee_sqrt_stub(x):
    """Over-approximating stub for the exact-IEEE obligations: any non-negative non-NaN double.
    (The L2 cap is +inf in those obligations, so the value only has to be comparable with +inf.)"""
    if not H.is_symbolic_run():
        return _REAL_SQRT(x)
    from crosshair.core import proxy_for_type
    from crosshair.tracers import NoTracing
    from crosshair.statespace import context_statespace

    with NoTracing():
        space = context_statespace()
        r = proxy_for_type(float, "sqrtstub" + space.uniq())
    if not (r >= 0.0):
        from crosshair.util import IgnoreAttempt

        raise IgnoreAttempt("sqrt stub: negative/NaN branch pruned")
    return r


def _ctx(turn, nov, l2, churn, cooldowns=None):
    t4 = {"delta_norm_cap_l2": l2, "novelty_cap_per_node": nov, "churn_cap_edges": churn, "cooldowns": dict(cooldowns or {})}
    return NS(turn_id=turn, config=NS(t4=t4), cfg=NS(t4=t4))


def _mk(ds, tis, opidx=None):
    out = []
    for i, (d, ti) in enumerate(zip(ds, tis)):
        out.append(ProposedDelta("node", TGT[ti], "weight", d, None if opidx is None else opidx[i], i))
    return out


def _ckey(d):
    return f"{d.target_kind}:{d.target_id}:{d.attr}"


# ----------------------------------------------------------------------------- C03.a
def _env_body(ds, tis, nov, churn):
    saved = T4.sqrt
    T4.sqrt = _ieee_sqrt_stub
    try:
        deltas = _mk(ds, tis)
        plan = Plan(version="t3-plan-v1", ops=[], deltas=deltas)
        res = T4.t4_filter(_ctx(5, nov, float("inf"), churn), {}, None, None, plan, "")
    finally:
        T4.sqrt = saved
    app = res.approved_deltas
    keys = [_ckey(d) for d in app]
    proposed = {_ckey(d) for d in deltas}
    ok = len(set(keys)) == len(keys) and keys == sorted(keys) and all(k in proposed for k in keys)
    ok = ok and len(app) <= churn
    for d in app:
        ok = ok and (abs(d.delta) <= nov)
    c = res.metrics["counts"]
    distinct = len(proposed)
    ok = ok and c["input"] == len(ds) and c["after_cooldown"] == distinct and c["after_novelty"] == distinct and c["after_l2"] == distinct
    ok = ok and c["approved"] == len(app) == min(distinct, churn) and c["dropped_tail"] == distinct - len(app)
    ok = ok and res.rejected_ops == [] and res.metrics["clamps"]["l2_scale"] == 1.0
    ok = ok and ("CHURN_CAP_HIT" in res.reasons) == (distinct > churn) and "COOLDOWN_BLOCKED" not in res.reasons and "DELTA_NORM_HIGH" not in res.reasons
    ok = ok and ("NOVELTY_SPIKE" in res.reasons) == (res.metrics["clamps"]["novelty_clamped"] > 0)
    # top-K rule: every dropped target has magnitude <= every kept one (after clamp), ties by key
    return ok


_ENV_STUB = ("t4.sqrt -> arbitrary non-negative double (L2 cap fixed at +inf so the scaling branch is unreachable; L2 scaling is decided in l2_real*)",)


@H.ob(model="ieee", quick=300, thorough=600,
      targets=("clematis/engine/stages/t4.py:t4_filter", "clematis/engine/stages/t4.py:_combine_by_ckey", "clematis/engine/stages/t4.py:_novelty_clamp", "clematis/engine/stages/t4.py:_churn_cap"),
      stubs=_ENV_STUB,
      bounds="2 symbolic deltas (every finite double: zeros, denormals, huge; their sum may overflow to +-inf) on targets by symbolic index over {x,y} (collision included) + one concrete delta 0.2 on z; novelty cap any double in (0,1]; churn cap unbounded int >= 0; delta_norm_cap_l2 = +inf",
      split={"t0": [0, 1], "t1": [0, 1]},
      note="C03.a envelope in exact IEEE-754: <=1 delta per target, only proposed targets, |delta| <= novelty cap, count <= churn cap, canonical order, counters consistent, reasons as documented")
def env_ieee2(d0: float, d1: float, t0: int, t1: int, nov: float, churn: int) -> bool:
    """
    pre: math.isfinite(d0) and math.isfinite(d1)
    pre: 0 <= t0 <= 1 and 0 <= t1 <= 1
    pre: 0.0 < nov <= 1.0 and churn >= 0
    post: _
    """
    return H.verdict(_env_body([d0, d1, 0.2], [t0, t1, 2], nov, churn))


@H.ob(model="ieee", quick=None, thorough=1500,
      targets=("clematis/engine/stages/t4.py:t4_filter",),
      stubs=_ENV_STUB,
      bounds="3 symbolic deltas (every finite double), targets by symbolic index over {x,y,z} (all 27 collision patterns, one job each); novelty cap any double in (0,1]; churn cap unbounded int >= 0; delta_norm_cap_l2 = +inf",
      split={"t0": [0, 1, 2], "t1": [0, 1, 2], "t2": [0, 1, 2]},
      note="C03.a envelope, 3 symbolic deltas (thorough)")
def env_ieee3(d0: float, d1: float, d2: float, t0: int, t1: int, t2: int, nov: float, churn: int) -> bool:
    """
    pre: math.isfinite(d0) and math.isfinite(d1) and math.isfinite(d2)
    pre: 0 <= t0 <= 2 and 0 <= t1 <= 2 and 0 <= t2 <= 2
    pre: 0.0 < nov <= 1.0 and churn >= 0
    post: _
    """
    return H.verdict(_env_body([d0, d1, d2], [t0, t1, t2], nov, churn))


# ----------------------------------------------------------------------------- C03.b
def _l2_body(ds, nov, l2, churn):
    n = len(ds)
    deltas = _mk(ds, list(range(n)))
    plan = Plan(version="t3-plan-v1", ops=[], deltas=deltas)
    res = T4.t4_filter(_ctx(5, nov, l2, churn), {}, None, None, plan, "")
    app = res.approved_deltas
    scale = res.metrics["clamps"]["l2_scale"]
    cl = [max(-nov, min(nov, d)) for d in ds]
    s_in = 0.0
    for v in cl:
        s_in = s_in + v * v
    ok = 0.0 < scale <= 1.0
    ok = ok and ((scale < 1.0) == (s_in > l2 * l2))
    ok = ok and (("DELTA_NORM_HIGH" in res.reasons) == (scale < 0.999999))
    ssum = 0.0
    for d in app:
        i = TGT.index(d.target_id)
        ok = ok and d.delta == cl[i] * scale and abs(d.delta) <= abs(cl[i]) and abs(d.delta) <= nov
        ssum = ssum + d.delta * d.delta
    ok = ok and ssum <= l2 * l2 * (1 + 1e-9)
    ok = ok and len(app) == min(n, churn)
    return ok


_L2_STUB = ("t4.sqrt -> SMT lemma r>=0 and r*r==s (exact real square root)",)


@H.ob(model="realfin", quick=300, thorough=600,
      targets=("clematis/engine/stages/t4.py:t4_filter", "clematis/engine/stages/t4.py:_l2_scale"),
      stubs=_L2_STUB,
      bounds="2 deltas on distinct targets, finite reals |d| <= 1e6; novelty cap in (0,1]; L2 cap in (0, 1e6]; churn cap 0..2; exact real arithmetic (rounding outside the claim, tolerance 1e-9)",
      split={"churn": [0, 1, 2]},
      note="C03.b L2 scaling: sum of squares <= cap^2, uniform scaling that preserves sign/ratios, never increases a magnitude (so the novelty bound survives), scale metric and DELTA_NORM_HIGH consistent")
def l2_real2(d0: float, d1: float, nov: float, l2: float, churn: int) -> bool:
    """
    pre: abs(d0) <= 1e6 and abs(d1) <= 1e6
    pre: 0.0 < nov <= 1.0 and 0.0 < l2 <= 1e6 and 0 <= churn <= 2
    post: _
    """
    return H.verdict(_l2_body([d0, d1], nov, l2, churn))


@H.ob(model="realfin", quick=None, thorough=1500,
      targets=("clematis/engine/stages/t4.py:t4_filter", "clematis/engine/stages/t4.py:_l2_scale"),
      stubs=_L2_STUB,
      bounds="3 deltas on distinct targets, finite reals |d| <= 1e6; novelty cap in (0,1]; L2 cap in (0, 1e6]; churn cap 0..3",
      split={"churn": [0, 1, 2, 3]},
      note="C03.b L2 scaling, 3 deltas (thorough)")
def l2_real3(d0: float, d1: float, d2: float, nov: float, l2: float, churn: int) -> bool:
    """
    pre: abs(d0) <= 1e6 and abs(d1) <= 1e6 and abs(d2) <= 1e6
    pre: 0.0 < nov <= 1.0 and 0.0 < l2 <= 1e6 and 0 <= churn <= 3
    post: _
    """
    return H.verdict(_l2_body([d0, d1, d2], nov, l2, churn))


# ----------------------------------------------------------------------------- C03.c
def _ref_pipeline(deltas, ops, last_map, turn, cooldowns, nov, l2, churn):
    """Independent reference of the documented pipeline:
    merge duplicates -> cooldown -> novelty clamp -> uniform L2 scaling -> keep top-K by (|d| desc, key asc) -> canonical order."""
    acc = {}
    for d in deltas:
        k = _ckey(d)
        if k in acc:
            v, oi = acc[k]
            noi = oi if d.op_idx is None else (d.op_idx if oi is None else min(oi, d.op_idx))
            acc[k] = (v + d.delta, noi)
        else:
            acc[k] = (d.delta, d.op_idx)
    blocked = set()
    for i, op in enumerate(ops):
        cd = cooldowns.get(op.kind)
        lt = last_map.get(op.kind)
        if cd and isinstance(lt, int) and turn - lt < cd:
            blocked.add(i)
    items = [(k, v) for k, (v, oi) in sorted(acc.items()) if oi is None or oi not in blocked]
    items = [(k, max(-nov, min(nov, v))) for k, v in items]
    s = 0.0
    for _, v in items:
        s = s + v * v
    # top-K by magnitude: a uniform positive scale does not change the ranking, so the reference ranks the
    # clamped values (keeps the reference free of non-linear comparisons) and scales afterwards
    rank = sorted(items, key=lambda kv: (-abs(kv[1]), kv[0]))
    keep = {k for k, _ in (rank[:churn] if len(items) > churn else rank)}
    if s > l2 * l2:
        r = H.sym_sqrt(s) if H.is_symbolic_run() else math.sqrt(s)
        sc = l2 / r
        items = [(k, v * sc) for k, v in items]
    items = [(k, v) for k, v in items if k in keep]
    return sorted(items), sorted(blocked)


def _pipe_body(ds, tis, nov, l2, churn, perm):
    deltas = _mk(ds, tis)
    plan = Plan(version="t3-plan-v1", ops=[], deltas=list(deltas))
    ctx = _ctx(5, nov, l2, churn)
    state = {"meta": {"cooldowns": {}}}
    res = T4.t4_filter(ctx, state, None, None, plan, "")
    if plan.deltas != deltas or state != {"meta": {"cooldowns": {}}}:
        return False
    plan_p = Plan(version="t3-plan-v1", ops=[], deltas=[deltas[i] for i in PERMS[perm]])
    res_p = T4.t4_filter(ctx, state, None, None, plan_p, "")
    got = [(_ckey(d), d.delta) for d in res.approved_deltas]
    got_p = [(_ckey(d), d.delta) for d in res_p.approved_deltas]
    ref, _ = _ref_pipeline(deltas, [], {}, 5, {}, nov, l2, churn)
    ok = [k for k, _ in got] == [k for k, _ in ref] == [k for k, _ in got_p]
    if ok:
        # same operations in the same order on both sides: exact equality (also bit-exact on doubles in native replay)
        for (k, v), (_, w), (_, u) in zip(got, ref, got_p):
            ok = ok and v == w and u == w
    ok = ok and res.reasons == res_p.reasons and res.metrics["counts"] == res_p.metrics["counts"]
    return ok


_PIPE_STUB = ("t4.sqrt -> SMT lemma (exact real square root, memoised per term), also used by the reference",)


@H.ob(model="realfin", quick=420, thorough=900,
      targets=("clematis/engine/stages/t4.py:t4_filter",),
      stubs=_PIPE_STUB,
      bounds="2 symbolic deltas (finite reals |d| <= 1e3) on targets by symbolic index over {x,y} (collision included) + concrete delta 0.25 on z; novelty cap in (0,1]; L2 cap = 10 (never binds for 3 clamped deltas); churn 0..3; listing order: every permutation of the 3 deltas",
      split={"perm": [1, 2, 3, 4, 5], "t1": [0, 1]},
      note="C03.c (unscaled regime) the result equals the documented pipeline (independent reference: merge, clamp, top-K by magnitude with key tie-break, canonical order) and does not depend on the listing order; arguments are not mutated")
def pipeline_lin(d0: float, d1: float, t1: int, nov: float, churn: int, perm: int) -> bool:
    """
    pre: abs(d0) <= 1e3 and abs(d1) <= 1e3
    pre: 0 <= t1 <= 1
    pre: 0.0 < nov <= 1.0 and 0 <= churn <= 3 and 0 <= perm < 6
    post: _
    """
    return H.verdict(_pipe_body([d0, d1, 0.25], [0, t1, 2], nov, 10.0, churn, perm))


@H.ob(model="realfin", quick=420, thorough=1200,
      targets=("clematis/engine/stages/t4.py:t4_filter", "clematis/engine/stages/t4.py:_l2_scale", "clematis/engine/stages/t4.py:_churn_cap"),
      stubs=_PIPE_STUB,
      bounds="2 symbolic deltas (finite reals |d| <= 1e3) on x,y + concrete delta 0.25 on z; novelty cap in (0,1]; L2 cap in (0, 0.25) so scaling always binds; churn 1..2 so top-K also binds; listing order identity and reversed; exact real arithmetic",
      split={"churn": [1, 2], "perm": [0, 5]}, per_path=200,
      note="C03.c (scaled regime) scaling happens before top-K exactly as documented: real result == reference pipeline when both the L2 cap and the churn cap bind")
def pipeline_scaled(d0: float, d1: float, nov: float, l2: float, churn: int, perm: int) -> bool:
    """
    pre: abs(d0) <= 1e3 and abs(d1) <= 1e3
    pre: 0.0 < nov <= 1.0 and 0.0 < l2 < 0.25 and 1 <= churn <= 2 and 0 <= perm < 6
    post: _
    """
    return H.verdict(_pipe_body([d0, d1, 0.25], [0, 1, 2], nov, l2, churn, perm))


# ----------------------------------------------------------------------------- C03.d
@H.ob(model="none", quick=300, thorough=900,
      targets=("clematis/engine/stages/t4.py:_collect_blocked_ops", "clematis/engine/stages/t4.py:t4_filter"),
      bounds="2 ops with kinds by symbolic index over {EditGraph, CreateGraph} (+ a third op of kind Speak without cooldown entry); turn, recorded last turn per kind (or absent), cooldown length per kind (>= 0 or absent): unbounded ints; 3 deltas on distinct targets, the first two with op_idx by symbolic index over {None,0,1}, the third from op 2",
      split={"k0": [0, 1], "k1": [0, 1]},
      note="C03.d cooldown arithmetic: op i blocked iff its kind has a cooldown > 0, a recorded integer last turn and turn - last < cooldown; deltas of blocked ops absent, others present; rejected_ops sorted and reported")
def cooldown(turn: int, k0: int, k1: int, l0: int, l1: int, hasl: int, c0: int, c1: int, hasc: int, o0: int, o1: int) -> bool:
    """
    pre: 0 <= k0 <= 1 and 0 <= k1 <= 1
    pre: 0 <= hasl < 4 and 0 <= hasc < 4
    pre: c0 >= 0 and c1 >= 0
    pre: -1 <= o0 <= 1 and -1 <= o1 <= 1
    post: _
    """
    kk = (k0, k1, 2)
    ops = [NS(kind=KINDS[k]) for k in kk]
    lasts, cds = {}, {}
    for i, (l, c) in enumerate(((l0, c0), (l1, c1))):
        if (hasl >> i) & 1:
            lasts[KINDS[i]] = l
        if (hasc >> i) & 1:
            cds[KINDS[i]] = c
    opidx = [None if o < 0 else o for o in (o0, o1)] + [2]
    deltas = _mk([0.1, -0.2, 0.05], [0, 1, 2], opidx)
    plan = Plan(version="t3-plan-v1", ops=ops, deltas=deltas)
    state = {"meta": {"cooldowns": dict(lasts)}}
    res = T4.t4_filter(_ctx(turn, 0.3, 1.5, 64, cds), state, None, None, plan, "")
    exp_blocked = []
    for i, k in enumerate(kk):
        kind = KINDS[k]
        if kind in cds and cds[kind] > 0 and kind in lasts and turn - lasts[kind] < cds[kind]:
            exp_blocked.append(i)
    ok = res.rejected_ops == [OpRef(kind=KINDS[kk[i]], idx=i) for i in exp_blocked]
    exp_keys = sorted(_ckey(d) for d in deltas if d.op_idx is None or d.op_idx not in exp_blocked)
    ok = ok and [_ckey(d) for d in res.approved_deltas] == exp_keys
    ok = ok and ("COOLDOWN_BLOCKED" in res.reasons) == bool(exp_blocked) and res.metrics["cooldowns"]["blocked_ops"] == len(exp_blocked)
    ok = ok and state == {"meta": {"cooldowns": dict(lasts)}}
    return H.verdict(ok)


def _mut_cd_falsy():
    orig = T4._collect_blocked_ops

    def bad(ops, state, ctx, cooldowns):
        st = copy.deepcopy(state)
        m = st.get("meta", {}).get("cooldowns", {})
        for k in list(m):
            if m[k] == 0:
                del m[k]
        return orig(ops, st, ctx, cooldowns)

    T4._collect_blocked_ops = bad


def _mut_churn_sign():
    def bad(deltas, k):
        k = int(k)
        n = len(deltas)
        if n <= k:
            return deltas, 0
        ranked = sorted(deltas, key=lambda d: (-float(d.delta), T4._canonical_key(d)))
        return ranked[:k], n - k

    T4._churn_cap = bad


MUTANTS = {
    "cooldown": [("last turn 0 treated as never fired", _mut_cd_falsy)],
    "pipeline_lin": [("churn ranks by signed value instead of magnitude", _mut_churn_sign)],
}
