"""C13 — planning and speaking stay within caps; untrusted plans are sanitised.

Real code: clematis.engine.stages.t3.policy.deliberate, t3.legacy.rag_once, t3.dialogue.speak/llm_speak/
_truncate_to_tokens, clematis.engine.policy.sanitize.parse_and_validate/_strip_triple_fences.
"""
from __future__ import annotations

import copy
from types import SimpleNamespace as NS
from typing import List

from engine import symx as H
from clematis.engine.stages.t3.policy import deliberate
from clematis.engine.stages.t3 import legacy as LG
from clematis.engine.stages.t3 import dialogue as DL
from clematis.engine.policy import sanitize as SZ
from clematis.engine.types import Plan, SpeakOp, RequestRetrieveOp


def _bundle(s_max, tau_high, tau_low, eps, ops_cap, slice_cap, has_slice, nlabels, d0, d1, tokens=64):
    touched = [{"id": "n1", "label": "alpha", "delta": d0}, {"id": "n0", "label": "beta", "delta": d1}]
    b = {
        "cfg": {"t3": {"tokens": tokens, "policy": {"tau_high": tau_high, "tau_low": tau_low, "epsilon_edit": eps}},
                "t2": {"owner_scope": "agent", "k_retrieval": 6, "sim_threshold": 0.3}},
        "agent": {"caps": {"ops": ops_cap}},
        "t2": {"metrics": {"sim_stats": {"max": s_max, "mean": 0.1}}},
        "t1": {"touched_nodes": touched},
        "text": {"input": "hello", "labels_from_t1": ["zeta", "alpha"][:nlabels]},
        "now": "2025-01-01T00:00:00Z",
    }
    if has_slice:
        b["slice_caps"] = {"t3_ops": slice_cap}
    if nlabels == 0:
        b["t1"]["touched_nodes"] = []
    return b


@H.ob(model="ieee", quick=300, thorough=900,
      targets=("clematis/engine/stages/t3/policy.py:deliberate", "clematis/engine/stages/t3/policy.py:_edit_nodes_from_bundle", "clematis/engine/stages/t3/policy.py:_topic_labels_from_bundle"),
      bounds="s_max, tau_high, tau_low, epsilon_edit, two touched-node deltas: every double except NaN (comparisons only, exact IEEE); per-turn op cap and per-slice op cap: unbounded ints (0 and negatives included), slice cap present or absent; 0..2 labels",
      split={"nlabels": [0, 1, 2], "has_slice": [False, True]},
      note="C13.a rule-based planner: at most max(0, min(op cap, slice cap)) ops, Speak first whenever any op is emitted, intent by the documented thresholds, RequestRetrieve only below the low threshold, EditGraph only at/above it; pure (bundle unmodified, second call equal)")
def planner(s_max: float, tau_high: float, tau_low: float, eps: float, d0: float, d1: float, ops_cap: int, slice_cap: int, has_slice: bool, nlabels: int) -> bool:
    """
    pre: s_max == s_max and tau_high == tau_high and tau_low == tau_low and eps == eps and d0 == d0 and d1 == d1
    pre: 0 <= nlabels <= 2
    post: _
    """
    b = _bundle(s_max, tau_high, tau_low, eps, ops_cap, slice_cap, has_slice, nlabels, d0, d1)
    before = copy.deepcopy(b)
    plan = deliberate(b)
    if b != before:
        return False
    plan2 = deliberate(b)
    if plan2 != plan:
        return False
    cap = min(ops_cap, slice_cap) if has_slice else ops_cap
    kinds = [op.kind for op in plan.ops]
    ok = len(kinds) <= (cap if cap > 0 else 0)
    if kinds:
        ok = ok and kinds[0] == "Speak" and kinds.count("Speak") == 1
        sp = plan.ops[0]
        labels = sorted({"zeta", "alpha"} if nlabels == 2 else ({"zeta"} if nlabels == 1 else set()))
        if s_max >= tau_high:
            exp_intent = "summary"
        elif s_max >= tau_low:
            exp_intent = "assertion" if labels else "ack"
        else:
            exp_intent = "question"
        ok = ok and sp.intent == exp_intent and list(sp.topic_labels) == labels and sp.max_tokens == 64
    if "RequestRetrieve" in kinds:
        ok = ok and s_max < tau_low
        rr = [op for op in plan.ops if op.kind == "RequestRetrieve"][0]
        ok = ok and rr.k == 3 and rr.owner == "agent"
    if "EditGraph" in kinds:
        ok = ok and s_max >= tau_low
        eg = [op for op in plan.ops if op.kind == "EditGraph"][0]
        ids = [e["id"] for e in eg.edits]
        exp = sorted(i for i, d in (("n1", d0), ("n0", d1)) if nlabels > 0 and abs(d) >= eps)
        ok = ok and ids == exp[: max((cap - 1) * 4, 0)] and ids != []
    ok = ok and all(k in ("Speak", "EditGraph", "RequestRetrieve") for k in kinds) and plan.reflection is False
    # completeness: with room for a second op the documented optional op is present
    if cap >= 2 and s_max < tau_low:
        ok = ok and kinds == ["Speak", "RequestRetrieve"]
    return H.verdict(ok)


@H.ob(model="ieee", quick=300, thorough=600,
      targets=("clematis/engine/stages/t3/legacy.py:rag_once",),
      bounds="pre/post s_max and thresholds: doubles (no NaN); op caps unbounded ints; plan with Speak + RequestRetrieve; retrieve_fn counting stub returning 0..2 hits with symbolic scores; already_used symbolic",
      note="C13.b one refinement: rag_once calls the retrieval function at most once (never when already used), keeps the op cap, and only raises the intent according to the thresholds")
def rag_refine(pre_s: float, hit_s: float, tau_high: float, tau_low: float, ops_cap: int, slice_cap: int, has_slice: bool, nhits: int, used: bool) -> bool:
    """
    pre: pre_s == pre_s and hit_s == hit_s and tau_high == tau_high and tau_low == tau_low
    pre: 0 <= nhits <= 2 and tau_low <= tau_high
    post: _
    """
    b = _bundle(pre_s, tau_high, tau_low, 0.1, ops_cap, slice_cap, has_slice, 1, 0.5, 0.0)
    calls = []

    def retrieve(payload):
        calls.append(payload)
        return {"retrieved": [{"id": "h%d" % i, "score": hit_s, "owner": "agent", "quarter": ""} for i in range(nhits)], "metrics": {}}

    plan = Plan(version="t3-plan-v1", ops=[SpeakOp(kind="Speak", intent="question", topic_labels=["zeta"], max_tokens=64),
                                          RequestRetrieveOp(kind="RequestRetrieve", query="hello", owner="agent", k=3, tier_pref="cluster_semantic", hints={})])
    before_ops = list(plan.ops)
    new_plan, m = LG.rag_once(b, plan, retrieve, already_used=used)
    ok = len(calls) == (0 if used else 1) and plan.ops == before_ops
    ok = ok and m["rag_used"] == (not used) and m["rag_blocked"] == used
    cap = min(ops_cap, slice_cap) if has_slice else ops_cap
    ok = ok and len(new_plan.ops) <= max(len(before_ops), cap if cap > 0 else 0)
    if not used:
        post = max(pre_s, hit_s if nhits > 0 else 0.0)  # an empty retrieval contributes s_max = 0.0
        sps = [op for op in new_plan.ops if op.kind == "Speak"]
        if post >= tau_high:
            exp = "summary"
        elif post >= tau_low:
            exp = "assertion"
        else:
            exp = "question"
        ok = ok and all(sp.intent == exp for sp in sps) and len(sps) <= 1
        if any(op.kind == "EditGraph" for op in new_plan.ops):
            ok = ok and post >= tau_low and len(new_plan.ops) <= cap
    return H.verdict(ok)


# ----------------------------------------------------------------------------- token budget
def _ntok(s: str) -> int:
    return len(s.split())


@H.ob(model="none", quick=300, thorough=900,
      targets=("clematis/engine/stages/t3/dialogue.py:_truncate_to_tokens",),
      bounds="every string of length <= 4 (quick) / 5 (thorough) over symbolic characters; token cap unbounded int",
      note="C13.c truncation: the result never has more whitespace tokens than max(cap, 0); untouched when within the cap; reported count consistent")
def truncate_tokens(s: str, cap: int) -> bool:
    """
    pre: len(s) <= (5 if H.THOROUGH else 4)
    post: _
    """
    out, trunc, n = DL._truncate_to_tokens(s, cap)
    lim = cap if cap > 0 else 0
    ok = _ntok(out) <= lim and n == _ntok(out)
    if cap > 0 and _ntok(s) <= cap:
        ok = ok and out == s and trunc is False
    return H.verdict(ok)


TEMPLATES = ["style_prefix| summary: {labels}. next: {intent}", "{style_prefix}| {labels} {snippets}", "plain {intent}", "{broken", "{snippets_text} {identity}"]


@H.ob(model="none", quick=300, thorough=900,
      targets=("clematis/engine/stages/t3/dialogue.py:speak", "clematis/engine/stages/t3/dialogue.py:llm_speak"),
      bounds="token budget on the Speak op: unbounded int >= 1 (0/None fall back to the agent cap, also symbolic); template by symbolic index over 5 (incl. a malformed one and one without the style slot); style prefix in {'', 'calm', 'very calm'}; 0..3 labels; 0..2 snippets; LLM adapter stub returning a symbolic text of length <= 3 (quick), raising, or returning a dict",
      split={"ti": [0, 1, 2, 3, 4], "llm": [False, True]},
      note="C13.c the utterance (rule-based and LLM backend) never exceeds its token budget in whitespace tokens and the reported token count is exact")
def speak_budget(ti: int, si: int, nl: int, ns: int, op_tokens: int, cap_tokens: int, llm: bool, atext: str, amode: int) -> bool:
    """
    pre: 0 <= ti <= 4 and 0 <= si <= 2 and 0 <= nl <= 3 and 0 <= ns <= 2 and 0 <= amode <= 2
    pre: op_tokens >= 0 and cap_tokens >= 0 and len(atext) <= (3 if H.THOROUGH else 2)
    pre: llm or (atext == "" and amode == 0)
    pre: (not llm) or (nl == 0 and ns == 0)
    post: _
    """
    labels = ["alpha", "beta gamma", "zeta"][:nl]
    db = {"agent": {"style_prefix": ["", "calm", "very calm"][si], "caps": {"tokens": cap_tokens}},
          "dialogue": {"template": TEMPLATES[ti], "include_top_k_snippets": 2},
          "retrieved": [{"id": "e%d" % i, "text": "snip text %d" % i, "score": 0.5} for i in range(ns)],
          "text": {"labels_from_t1": labels, "input": "hi"}, "now": "2025"}
    plan = Plan(version="t3-plan-v1", ops=[SpeakOp(kind="Speak", intent="summary", topic_labels=list(labels), max_tokens=op_tokens)])
    budget = op_tokens if op_tokens else cap_tokens
    if llm:
        class Ad:
            name = "stub"
            default_temperature = 0.2

            def generate(self, prompt, max_tokens=0, temperature=0.0):
                if amode == 1:
                    raise RuntimeError("adapter down")
                if amode == 2:
                    return {"text": atext, "tokens": 1, "truncated": False}
                return NS(text=atext, tokens=1, truncated=False)

        utter, m = DL.llm_speak(db, plan, Ad())
    else:
        utter, m = DL.speak(db, plan)
    ok = _ntok(utter) <= budget and m["tokens"] == _ntok(utter)
    return H.verdict(ok)


# ----------------------------------------------------------------------------- sanitiser
@H.ob(model="none", quick=300, thorough=900,
      targets=("clematis/engine/policy/sanitize.py:_strip_triple_fences", "clematis/engine/policy/sanitize.py:parse_and_validate"),
      bounds="every string of length <= 5 (quick) / 7 (thorough) over symbolic characters",
      note="C13.d fence stripping never raises, returns a string no longer than the input, and a language tag only for fenced input; parse_and_validate on the same raw string never raises and returns (bool, value)")
def fences(s: str) -> bool:
    """
    pre: len(s) <= (7 if H.THOROUGH else 5)
    post: _
    """
    body, lang = SZ._strip_triple_fences(s)
    ok = isinstance(body, str) and len(body) <= len(s) and (lang is None or isinstance(lang, str))
    if lang is not None:
        ok = ok and s.strip().startswith("```") and s.strip().endswith("```")
    return H.verdict(ok)


REF_VARIANTS = [True, False, 1, 0, "true", "no", "maybe", None, 2, 1.0, [], {}, [True], {"value": True}, " YES "]


def _json_value(kind, n_items, item_len, rat_len, ref_i, extra_key):
    """Typed variants of what json.loads may return for an LLM plan."""
    n_items = [0, 1, 16, 17][n_items]
    item_len = [0, 1, 200, 201][item_len]
    rat_len = [0, 1, 2000, 2001][rat_len]
    items = ["x" * item_len for _ in range(n_items)]
    if kind == 0:
        obj = {"plan": items, "rationale": "r" * rat_len}
    elif kind == 1:
        obj = {"plan": items, "rationale": "r" * rat_len, "reflection": copy.deepcopy(REF_VARIANTS[ref_i])}
    elif kind == 2:
        obj = {"plan": items + [7], "rationale": "r" * rat_len}
    elif kind == 3:
        obj = {"plan": "notalist", "rationale": "r" * rat_len}
    elif kind == 4:
        obj = {"plan": items, "rationale": 5}
    elif kind == 5:
        obj = [1, 2]
    elif kind == 6:
        obj = {"plan": items}
    elif kind == 7:
        obj = {"plan": items + ["   "], "rationale": "r" * rat_len}
    else:
        obj = None
    if extra_key and isinstance(obj, dict):
        obj["extra"] = 1
    return obj


@H.ob(model="none", quick=300, thorough=600,
      targets=("clematis/engine/policy/sanitize.py:parse_and_validate", "clematis/engine/policy/sanitize.py:_coerce_bool"),
      stubs=("sanitize.json.loads -> returns a typed JSON value built from symbolic sizes (list length, item length, rationale length, reflection variant, extra key), or raises",),
      bounds="plan length, item length and rationale length by symbolic index over the boundary values {0,1,16,17} / {0,1,200,201} / {0,1,2000,2001} of the documented limits; 9 value shapes; 15 reflection variants (booleans, ints, words, null, float, JSON arrays and objects); unknown key flag; json.loads may raise",
      split={"kind": [0, 1, 2, 3, 4, 5, 6, 7, 8]},
      note="C13.d post-parse validation: the result is (False, reason string) or (True, object within the documented limits with exactly plan/rationale/reflection); no input makes it raise")
def validate_plan(kind: int, n_items: int, item_len: int, rat_len: int, ref_i: int, extra_key: bool, raises: bool) -> bool:
    """
    pre: 0 <= kind <= 8 and 0 <= n_items <= 3 and 0 <= item_len <= 3 and 0 <= rat_len <= 3 and 0 <= ref_i <= 14
    post: _
    """
    val = _json_value(kind, n_items, item_len, rat_len, ref_i, extra_key)
    real = SZ.json

    class J:
        @staticmethod
        def loads(s):
            if raises:
                raise ValueError("bad json")
            return val

    SZ.json = J
    try:
        try:
            ok, res = SZ.parse_and_validate("{}", {})
        except Exception:
            return False
    finally:
        SZ.json = real
    if ok is False:
        return H.verdict(isinstance(res, str))
    good = ok is True and isinstance(res, dict) and set(res.keys()) == {"plan", "rationale", "reflection"}
    good = good and isinstance(res["plan"], list) and len(res["plan"]) <= 16
    good = good and all(isinstance(x, str) and 0 < len(x) <= 200 and x.strip() != "" for x in res["plan"])
    good = good and isinstance(res["rationale"], str) and 0 < len(res["rationale"]) <= 2000 and isinstance(res["reflection"], bool)
    good = good and not raises and not extra_key and kind in (0, 1)
    return H.verdict(good)
