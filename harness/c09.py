"""C09 — stage-level parallelism is indistinguishable from sequential execution.

Real code: clematis.engine.util.parallel.run_parallel, the parallel branches of t1_propagate and t2_semantic
(collect_shard_hits, merge_tier_hits_across_shards_dict, InMemoryIndex._iter_shards_for_t2).
ThreadPoolExecutor is replaced by a fake pool that runs the submitted thunks, atomically, in an order given by a
SYMBOLIC permutation (completion order at task granularity).
"""
from __future__ import annotations

import copy
import itertools
from types import SimpleNamespace as NS

from engine import symx as H
from engine.envmodels import FakePool
from harness import world as W
import clematis.engine.util.parallel as PAR
from clematis.engine.util.parallel import run_parallel, ParallelError

_POOL_STUB = ("util.parallel.ThreadPoolExecutor -> fake pool executing the thunks in a symbolic permutation (tasks atomic; preemption inside a task and real threads are outside the claim)",)


def pick(lst, i):
    for j, v in enumerate(lst):
        if i == j:
            return v
    raise IndexError(i)


class _Pool:
    def __init__(self, order):
        self.pool = FakePool(order)

    def __enter__(self):
        self.saved = PAR.ThreadPoolExecutor
        PAR.ThreadPoolExecutor = self.pool.factory()
        return self.pool

    def __exit__(self, *a):
        PAR.ThreadPoolExecutor = self.saved
        return False


PERM4 = list(itertools.permutations(range(4)))
PERM3 = list(itertools.permutations(range(3)))


@H.ob(model="none", quick=300, thorough=900,
      targets=("clematis/engine/util/parallel.py:run_parallel",), stubs=_POOL_STUB,
      bounds="n = 0..3 tasks (thorough: 4) with symbolic order keys in 0..1 (thorough 0..2 for n <= 3; ties allowed), completion order: every permutation (symbolic index), max_workers 0..3 (thorough 0..8), failing subset by mask (one job each)",
      split={"n": ([0, 1, 2, 3, 4] if H.THOROUGH else [0, 1, 2, 3]), "mask": (list(range(16)) if H.THOROUGH else list(range(8)))},
      note="C09.a helper: the result is merge_fn over all task results sorted by (key, submit index) whatever the completion order; workers <= 1 is a plain loop; failures: ParallelError lists every failed task in (key, submit index) order (pool path) and merge_fn is never called with partial results")
def helper(n: int, k0: int, k1: int, k2: int, k3: int, perm: int, workers: int, mask: int) -> bool:
    """
    pre: 0 <= n <= 4 and 0 <= perm < 24 and 0 <= workers <= 8 and 0 <= mask < 16
    pre: 0 <= k0 <= 2 and 0 <= k1 <= 2 and 0 <= k2 <= 2 and 0 <= k3 <= 2
    pre: n == 4 or perm < 6
    pre: n < 4 or (k0 <= 1 and k1 <= 1 and k2 <= 1 and k3 <= 1)
    pre: H.THOROUGH or (workers <= 3 and k0 <= 1 and k1 <= 1 and k2 <= 1)
    post: _
    """
    keys = [k0, k1, k2, k3][:n]
    fail = [((mask >> i) % 2 == 1) for i in range(n)]
    ran = []

    def mk(i):
        def thunk():
            ran.append(i)
            if fail[i]:
                raise ValueError("task %d" % i)
            return "r%d" % i
        return thunk

    tasks = [(keys[i], mk(i)) for i in range(n)]
    merged_calls = []

    def merge(pairs):
        merged_calls.append(list(pairs))
        return [r for _, r in pairs]

    order = pick(PERM4, perm) if n == 4 else pick(PERM3, perm)
    err = None
    out = None
    with _Pool(order) as pool:
        try:
            out = run_parallel(tasks, max_workers=workers, merge_fn=merge, order_key=lambda k: k)
        except ParallelError as e:
            err = e
    idx_sorted = sorted(range(n), key=lambda i: (keys[i], i))
    if not any(fail):
        ok = err is None and out == ["r%d" % i for i in idx_sorted] and len(merged_calls) == 1
        ok = ok and merged_calls[0] == [(keys[i], "r%d" % i) for i in idx_sorted]
        if workers > 1 and n > 0:
            ok = ok and sorted(ran) == list(range(n)) and ran == [i for i in order if i < n]
        else:
            ok = ok and ran == list(range(n))
        return H.verdict(ok)
    ok = err is not None and merged_calls == []
    if workers > 1:
        exp = [i for i in idx_sorted if fail[i]]
        ok = ok and [(e.key, e.message) for e in err.errors] == [(keys[i], "task %d" % i) for i in exp] and all(e.exc_type == "ValueError" for e in err.errors)
    else:
        first = [i for i in range(n) if fail[i]][0]
        ok = ok and [(e.key, e.message) for e in err.errors] == [(keys[first], "task %d" % first)]
    return H.verdict(ok)


# ----------------------------------------------------------------------------- T1
from harness import c12 as B12  # topologies and reference helpers  # noqa: E402
import clematis.engine.stages.t1 as T1  # noqa: E402
from clematis.engine.types import Node, Edge  # noqa: E402
from clematis.graph.store import InMemoryGraphStore  # noqa: E402


def install():
    T1.stable_key = lambda obj: "KEY-UNUSED"
    W.stub_store_etag()


@H.ob(model="realfin", quick=400, thorough=900,
      targets=("clematis/engine/stages/t1.py:t1_propagate", "clematis/engine/util/parallel.py:run_parallel"), stubs=_POOL_STUB + ("t1.stable_key -> constant (T1 cache off)",),
      bounds="3 active graphs (chain, cycle, seedless) sharing node ids, 4 symbolic real weights in [-2,2]; completion order: every permutation of 3; max_workers 2..4; perf metrics gate on/off; queue budget 0..3; radius/layer caps loose (3,3), radius cap 1 (hit) or layer cap 1 (hit)",
      split={"perm": [0, 1, 2, 3, 4, 5], "caps": [0, 1, 2]},
      note="C09.b parallel T1 over several graphs returns exactly the deltas (items, order) and counters of the sequential path for every completion order and worker count")
def t1_parallel(w0: float, w1: float, w2: float, w3: float, perm: int, workers: int, qb: int, metrics: bool, caps: int) -> bool:
    """
    pre: -2.0 <= w0 <= 2.0 and -2.0 <= w1 <= 2.0 and -2.0 <= w2 <= 2.0 and -2.0 <= w3 <= 2.0
    pre: 0 <= perm < 6 and 2 <= workers <= 4 and 0 <= qb <= 3 and 0 <= caps <= 2
    post: _
    """
    rc, icl = pick([(3, 3), (1, 3), (3, 1)], caps)   # loose caps / radius cap that is hit / layer cap that is hit
    def store():
        s = InMemoryGraphStore()
        s.upsert_nodes("g1", [Node(id="a", label="alpha"), Node(id="b", label="beta"), Node(id="c", label="gamma")])
        s.upsert_edges("g1", [Edge(id="e1", src="a", dst="b", weight=w0, rel="supports"), Edge(id="e2", src="b", dst="c", weight=w1, rel="associates")])
        s.upsert_nodes("g2", [Node(id="a", label="alpha"), Node(id="z", label="zeta")])
        s.upsert_edges("g2", [Edge(id="e1", src="a", dst="z", weight=w2, rel="supports"), Edge(id="e2", src="z", dst="a", weight=w3, rel="contradicts")])
        s.upsert_nodes("g3", [Node(id="q", label="omega")])
        return s

    def run(parallel):
        perf = {"enabled": True, "parallel": {"enabled": parallel, "t1": True, "max_workers": workers}, "metrics": {"report_memory": metrics}}
        t1 = {"queue_budget": qb, "radius_cap": rc, "iter_cap": 50, "iter_cap_layers": icl, "node_budget": 1.5, "edge_type_mult": dict(B12.MULT),
              "decay": dict(B12.DECAYS[0]), "cache": {"enabled": False}}
        cfg = W.to_attr({"t1": t1, "perf": perf})
        ctx = NS(cfg=cfg, config=cfg, turn_id=1, agent_id="A")
        state = {"store": store(), "active_graphs": ["g1", "g2", "g3"]}
        return T1.t1_propagate(ctx, state, "alpha")

    seq = run(False)
    with _Pool(pick(PERM3, perm)) as pool:
        par = run(True)
    used_pool = pool.futs != []
    m_seq = {k: v for k, v in seq.metrics.items() if k not in ("parallel_workers", "task_count")}
    m_par = {k: v for k, v in par.metrics.items() if k not in ("parallel_workers", "task_count")}
    return H.verdict(used_pool and par.graph_deltas == seq.graph_deltas and m_par == m_seq)


# ----------------------------------------------------------------------------- T2
from harness import c11 as B11  # noqa: E402
from clematis.engine.stages.t2 import t2_semantic  # noqa: E402
from clematis.engine.types import T1Result  # noqa: E402


AGES = [None, ["2024-06-01T00:00:00Z", "2025-01-05T00:00:00Z", "2025-01-09T00:00:00Z"], ["2025-01-09T00:00:00Z", "2024-06-01T00:00:00Z", "2025-01-05T00:00:00Z"]]


@H.ob(model="realfin", quick=400, thorough=900,
      targets=("clematis/engine/stages/t2/core.py:t2_semantic", "clematis/engine/stages/t2/parallel.py:collect_shard_hits", "clematis/engine/stages/t2/shard.py:merge_tier_hits_across_shards_dict", "clematis/memory/index.py:InMemoryIndex._iter_shards_for_t2"),
      stubs=_POOL_STUB + B11._STUBS + ("t2.shard._qscore (1e-9 quantisation) -> exact score under symbolic execution: scores closer than 1e-9 are outside the claim",),
      bounds="memory M3 split into shards by max_workers 2..3; symbolic finite scores and threshold in [-1,1]; k_retrieval 1..3; tier list exact-only / exact+archive / archive-only (tier lists containing cluster_semantic: known finding, replayed natively only); owners all A; which episodes are recent (exact tier) vs old by index over 3 age patterns (recent,recent,old / old,recent,recent / recent,old,recent: a shard may hold an already-returned recent episode followed by a new old one); completion order: every permutation of 3",
      split={"ts": [0, 1, 2], "k": [1, 2, 3], "ap": [0, 1, 2]},
      note="C09.c parallel T2 over in-memory shards returns the items, order, scores and counters of the sequential path for every completion order and worker count")
def t2_parallel(s0: float, s1: float, s2: float, thr: float, k: int, ts: int, perm: int, workers: int, ap: int) -> bool:
    """
    pre: 1 <= k <= 3 and 0 <= ts <= 4 and 0 <= perm < 6 and 2 <= workers <= 3 and 0 <= ap <= 2
    pre: -1.0 <= s0 <= 1.0 and -1.0 <= s1 <= 1.0 and -1.0 <= s2 <= 1.0 and -1.0 <= thr <= 1.0
    post: _
    """
    # distinct scores are at least 1e-6 apart: the shard merge orders by scores quantised to 1e-9 (documented in
    # shard._qscore), which can differ from the exact order only for scores closer than that
    tiers = pick([["exact_semantic"], ["exact_semantic", "archive"], ["archive"], ["cluster_semantic"], ["exact_semantic", "cluster_semantic", "archive"]], ts)
    scores = [s0, s1, s2]

    def run(parallel):
        W.reset_globals()
        cfg = {"t2": {"backend": "inmemory", "k_retrieval": k, "sim_threshold": thr, "tiers": list(tiers), "exact_recent_days": 30, "clusters_top_m": 2, "owner_scope": "any",
                      "ranking": {"alpha_sim": 1.0, "beta_recency": 0.0, "gamma_importance": 0.0}, "residual_cap_per_turn": 8, "cache": {"enabled": False}},
               "t1": {"cache": {"enabled": False}},
               "perf": {"enabled": True, "parallel": {"enabled": parallel, "t2": True, "max_workers": workers}, "metrics": {"report_memory": False}}}
        ctx = W.make_ctx(cfg, turn_id=2)
        state = W.make_state(index=W.make_index(owners=["A", "A", "A"], ts=pick(AGES, ap)))
        with W.CosineStub(scores), W.NumpyShim():
            return t2_semantic(ctx, state, "beta", T1Result(graph_deltas=[], metrics={}))

    B11.install()
    import clematis.engine.stages.t2.shard as SH

    real_q = SH._qscore
    if H.is_symbolic_run():
        # the shard merge orders by scores quantised to 1e-9 (int(round(s*1e9)): ToInt on a symbolic real); under
        # symbolic execution the exact score is used instead, i.e. scores closer than 1e-9 are outside the claim
        SH._qscore = lambda s: s
    try:
        seq = run(False)
        with _Pool(pick(PERM3, perm)) as pool:
            par = run(True)
    except Exception:
        return False
    finally:
        SH._qscore = real_q
        W.reset_globals()
    used_pool = pool.futs != []
    a = [(r.id, r.score) for r in seq.retrieved]
    b = [(r.id, r.score) for r in par.retrieved]
    keys = ("k_returned", "k_used", "k_residual", "tier_sequence")
    ok = used_pool and a == b and seq.graph_deltas_residual == par.graph_deltas_residual
    ok = ok and all(seq.metrics.get(x) == par.metrics.get(x) for x in keys)
    return H.verdict(ok)
