"""C05 — caches are transparent: a hit equals a fresh computation.

Differential: the real stage with its cache ON (fresh module-global cache at the start of the history) against the
same call sequence with caches OFF.  Histories are `call ; mutate ; call` — a stale hit needs exactly one fill and one
later lookup, so this is the minimal and sufficient shape for key completeness (eviction interplay is C15).
"""
from __future__ import annotations

import copy
from types import SimpleNamespace as NS

from engine import symx as H
from harness import world as W
from clematis.engine.types import Node, Edge, T1Result
import clematis.engine.stages.t1 as T1
from clematis.engine.stages.t2 import t2_semantic
import clematis.memory.index as MI


def pick(lst, i):
    for j, v in enumerate(lst):
        if i == j:
            return v
    raise IndexError(i)


DIAG = ("cache_hits", "cache_misses", "cache_used", "cache_enabled", "max_delta")


def _strip(metrics):
    return {k: v for k, v in metrics.items() if k not in DIAG and not k.startswith("t1.cache") and not k.startswith("t2.cache")}


# ----------------------------------------------------------------------------- C05.a T1 stage cache
T1_MUT = ["none", "reweight_edge", "relabel_node", "add_edge", "switch_state_same_shape", "decay_rate", "radius_cap", "slice_pops", "text_case", "node_budget", "slice_iters", "drop_second_graph"]


def _t1_cfg(cache_on, rate=0.6, radius=3, nb=1.5):
    return W.to_attr({"t1": {"queue_budget": 6, "radius_cap": radius, "iter_cap": 50, "iter_cap_layers": 3, "node_budget": nb,
                             "edge_type_mult": {"supports": 1.0, "associates": 0.6, "contradicts": 0.8}, "decay": {"mode": "exp_floor", "rate": rate, "floor": 0.05},
                             "cache": {"enabled": cache_on, "max_entries": 8, "ttl_s": 300}}})


def _t1_history(cache_on, mut, w0, w1, w2, two=False):
    W.reset_globals()
    store = W.make_store(w_ab=w0, w_bc=w1, two=two)
    state = {"store": store, "active_graphs": ["g:surface"] + (["g:two"] if two else [])}
    cfg = _t1_cfg(cache_on)
    ctx = NS(cfg=cfg, config=cfg, turn_id=1, agent_id="A")
    r1 = T1.t1_propagate(ctx, state, "alpha")
    text = "alpha"
    if mut == "reweight_edge":
        store.upsert_edges("g:surface", [Edge(id="e_ab", src="a", dst="b", weight=w2, rel="supports")])
    elif mut == "relabel_node":
        store.upsert_nodes("g:surface", [Node(id="c", label="alpha")])
    elif mut == "add_edge":
        store.upsert_edges("g:surface", [Edge(id="e_ac", src="a", dst="c", weight=w2, rel="supports")])
    elif mut == "switch_state_same_shape":
        state = {"store": W.make_store(w_ab=w2, w_bc=w1, two=two), "active_graphs": list(state["active_graphs"])}
    elif mut == "drop_second_graph":
        state = {"store": store, "active_graphs": ["g:surface"]}
    elif mut == "decay_rate":
        cfg = _t1_cfg(cache_on, rate=0.3)
    elif mut == "radius_cap":
        cfg = _t1_cfg(cache_on, radius=1)
    elif mut == "node_budget":
        cfg = _t1_cfg(cache_on, nb=0.5)
    elif mut == "text_case":
        text = "ALPHA beta"
    ctx2 = NS(cfg=cfg, config=cfg, turn_id=2, agent_id="B")
    if mut == "slice_pops":
        ctx2.slice_budgets = {"t1_pops": 1}
    if mut == "slice_iters":
        ctx2.slice_budgets = {"t1_iters": 1}
    r2 = T1.t1_propagate(ctx2, state, text)
    r3 = T1.t1_propagate(ctx2, state, text)  # a third call: the (possibly cached) value must not have been mutated by its consumers
    W.reset_globals()
    return r1, r2, r3


@H.ob(model="none", quick=400, thorough=900,
      targets=("clematis/engine/stages/t1.py:t1_propagate", "clematis/engine/stages/t1.py:_t1_one_graph", "clematis/engine/stages/t1.py:_get_cache", "clematis/graph/store.py:InMemoryGraphStore._bump_etag", "clematis/engine/cache.py:LRUCache.get"),
      bounds="history: t1(text) ; one mutation ; t1(text) ; t1(text) on graph W3 (optionally with a second active graph seeded by the same text) with 3 edge weights (two before, one after) by symbolic index over {-1.5, 0.8, 0} (weights reach hashlib through the store etag, so they cannot stay symbolic); mutation by index over {none, re-weight an existing edge, relabel a node, add an edge, switch to another state with the same graph id and node/edge counts, change decay rate, change radius cap, tighter slice pop cap, other text, node budget, tighter slice layer cap, second graph deactivated}; caps concrete (they reach json.dumps through the cache key); real clock (both calls inside the TTL)",
      split={"mi": list(range(len(T1_MUT)))},
      note="C05.a propagation cache: graph_deltas and work counters of every call equal the cache-off run (cache diagnostics and the max-delta gauge excluded, as in the statement)")
def t1_cache(mi: int, i0: int, i1: int, i2: int, two: bool) -> bool:
    """
    pre: 0 <= mi < len(T1_MUT)
    pre: 0 <= i0 <= 2 and 0 <= i1 <= 1 and 0 <= i2 <= 2
    post: _
    """
    WS = [-1.5, 0.8, 0.0]
    w0, w1, w2 = pick(WS, i0), pick(WS, i1), pick(WS, i2)
    mut = pick(T1_MUT, mi)
    on = _t1_history(True, mut, w0, w1, w2, two)
    off = _t1_history(False, mut, w0, w1, w2, two)
    ok = True
    for a, b in zip(on, off):
        ok = ok and a.graph_deltas == b.graph_deltas and _strip(a.metrics) == _strip(b.metrics)
    return H.verdict(ok)


# ----------------------------------------------------------------------------- C05.b T2 stage cache
T2_MUT = ["none", "other_agent", "add_episode", "k_retrieval", "owner_scope_any", "ranking", "now_later", "relabel_graph_node", "residual_cap", "slice_cap", "other_state_same_version", "threshold",
          "other_t1_result", "clear_and_refill"]


class LenEncoder:
    """Embedding stub whose query vector depends on the query text (4th component = its length), so that a different
    T1 result (labels appended to the query) yields a different query vector."""

    def encode(self, texts):
        import numpy as np
        return [np.asarray([9.0, 0.0, 0.0, float(len(t))], dtype=np.float32) for t in texts]


class QCosine(W.CosineStub):
    """Scores as CosineStub for the plain query 'beta'; reversed (1 - score) for any other query text."""

    def __call__(self, a, b):
        base = W.CosineStub.__call__(self, a, b)
        try:
            plain = float(a[3]) == 4.0
        except Exception:
            plain = True
        return base if plain else 1.0 - base
OWN = ["A", "B", "world"]


def _t2_cfg(cache_on, k=3, scope="agent", alpha=1.0, beta=0.0, resid=8, thr=0.1):
    return {"t2": {"backend": "inmemory", "k_retrieval": k, "sim_threshold": thr, "tiers": ["exact_semantic", "archive"], "exact_recent_days": 30, "clusters_top_m": 2,
                   "owner_scope": scope, "ranking": {"alpha_sim": alpha, "beta_recency": beta, "gamma_importance": 0.0}, "residual_cap_per_turn": resid,
                   "cache": {"enabled": cache_on, "max_entries": 8, "ttl_s": 300}},
            "t1": {"cache": {"enabled": False}}}


def _t2_history(cache_on, mut, owners, scores, s_new):
    W.reset_globals()
    state = W.make_state(index=W.make_index(owners=owners))
    t1 = T1Result(graph_deltas=[], metrics={})
    cfg = _t2_cfg(cache_on)
    ctx = W.make_ctx(cfg, turn_id=1, agent="A", enc=LenEncoder())
    allsc = list(scores) + [s_new]
    t1_second = t1
    with QCosine(allsc), W.NumpyShim():
        r1 = t2_semantic(ctx, state, "beta", t1)
        agent, now = "A", W.NOW
        extra = {}
        if mut == "other_t1_result":
            # same text, but T1 touched node c this time: its label joins the query text
            t1_second = T1Result(graph_deltas=[{"op": "upsert_node", "id": "c"}], metrics={})
        elif mut == "other_agent":
            agent = "B"
        elif mut == "add_episode":
            state["mem_index"].add({"id": "e4", "owner": "A", "text": "alpha new", "ts": "2025-01-09T12:00:00Z", "vec_full": W.marker_vec(3), "aux": {"importance": 0.5}})
        elif mut == "k_retrieval":
            cfg = _t2_cfg(cache_on, k=1)
        elif mut == "owner_scope_any":
            cfg = _t2_cfg(cache_on, scope="any")
        elif mut == "ranking":
            cfg = _t2_cfg(cache_on, alpha=0.0, beta=1.0)
        elif mut == "now_later":
            now = "2025-03-01T00:00:00Z"
        elif mut == "relabel_graph_node":
            state["store"].upsert_nodes("g:surface", [Node(id="c", label="story")])
        elif mut == "residual_cap":
            cfg = _t2_cfg(cache_on, resid=1)
        elif mut == "slice_cap":
            extra["slice_budgets"] = {"t2_k": 1}
        elif mut == "other_state_same_version":
            state = W.make_state(index=W.make_index(owners=list(reversed(owners))))
        elif mut == "threshold":
            cfg = _t2_cfg(cache_on, thr=0.75)
        elif mut == "clear_and_refill":
            # same index object, version counter restarts: three other episodes bring it back to the same version
            idx = state["mem_index"]
            fresh = W.make_index(owners=list(reversed(owners)))
            idx.clear()
            for ep in fresh._eps:
                ep = dict(ep)
                ep["id"] = "n" + ep["id"]
                idx.add(ep)
        ctx2 = W.make_ctx(cfg, turn_id=2, agent=agent, now=now, enc=LenEncoder(), **extra)
        r2 = t2_semantic(ctx2, state, "beta", t1_second)
    W.reset_globals()
    return r1, r2, (agent, state)


def _t2_view(r):
    return ([(x.id, x.score) for x in r.retrieved], r.graph_deltas_residual, _strip(r.metrics))


@H.ob(model="realfin", quick=400, thorough=900,
      targets=("clematis/engine/stages/t2/core.py:t2_semantic", "clematis/engine/stages/t2/cache.py:get_cache", "clematis/engine/cache.py:LRUCache.get", "clematis/memory/index.py:InMemoryIndex.index_version"),
      stubs=("memory.index._cosine -> symbolic score per episode", "t2.core.np.mean/max -> pure python"),
      bounds="history: t2(agent A, text) ; one mutation ; t2(text) on memory M3 with owners of the 3 episodes by symbolic index over {A,B,world}; owner scope agent; scores concrete distinct except one symbolic score; mutation by index over {none, other agent, add episode, k_retrieval, owner scope, ranking weights, later now, relabel a graph node, residual cap, per-slice cap, another state whose index has the same version, threshold, the same index object cleared and refilled to the same version, a different T1 result for the same text (query vector depends on the query text through a length-keyed embedding stub)}",
      split={"mi": list(range(len(T2_MUT)))},
      note="C05.b retrieval cache: ids, order, scores, residual nudges and k_used of every call equal the cache-off run; in particular no episode of another owner is served under agent scope")
def t2_cache(mi: int, o0: int, o1: int, o2: int, s1: float) -> bool:
    """
    pre: 0 <= mi < len(T2_MUT) and 0 <= o0 <= 2 and 0 <= o1 <= 2 and 0 <= o2 <= 2
    pre: 0.2 <= s1 <= 0.95
    post: _
    """
    mut = pick(T2_MUT, mi)
    owners = [pick(OWN, o0), pick(OWN, o1), pick(OWN, o2)]
    scores = [0.7, s1, 0.8]
    on = _t2_history(True, mut, owners, scores, 0.6)
    off = _t2_history(False, mut, owners, scores, 0.6)
    ok = _t2_view(on[0]) == _t2_view(off[0]) and _t2_view(on[1]) == _t2_view(off[1])
    # owner isolation stated on its own (independent of the differential)
    agent, state = on[2]
    cfg_scope_agent = mut != "owner_scope_any"
    if cfg_scope_agent:
        own_by_id = {e["id"]: e["owner"] for e in state["mem_index"]._eps}
        for x in on[1].retrieved:
            ok = ok and own_by_id[x.id] == agent
    return H.verdict(ok)


# ----------------------------------------------------------------------------- C05.c turn-level version-keyed cache
TURN_MUT = ["none", "other_agent", "add_episode", "other_text", "kill_switch_then_other_agent", "relabel_graph_node"]


def _turn_history(cache_on, mut, bust, scope_agent, t4_on=True):
    W.reset_globals()
    over = {"t1": {"decay": {"mode": "exp_floor", "rate": 0.6, "floor": 0.05}, "cache": {"enabled": cache_on}},
            "t2": {"owner_scope": scope_agent if isinstance(scope_agent, str) else ("agent" if scope_agent else "any"), "k_retrieval": 3, "sim_threshold": -1.0, "tiers": ["exact_semantic", "archive"], "cache": {"enabled": cache_on}},
            "t4": {"enabled": t4_on, "cache": {"enabled": cache_on}, "cache_bust_mode": "on-apply" if bust else "none", "snapshot_every_n_turns": 1000}}
    cfg = W.make_cfg(over)
    state = W.make_state()
    views = []
    res1, spy1 = W.run_turn(W.make_ctx(cfg, turn_id=1, agent="A"), state, "beta")
    views.append((res1.line, W.canonical(spy1.records, drop_cache_diag=True)))
    agent, text = "A", "beta"
    if mut == "other_agent":
        agent = "B"
    elif mut == "add_episode":
        state["mem_index"].add({"id": "e4", "owner": "A", "text": "alpha fresh", "ts": "2025-01-09T12:00:00Z", "vec_full": W.marker_vec(0), "aux": {"importance": 0.5}})
    elif mut == "other_text":
        text = "gamma"
    elif mut == "kill_switch_then_other_agent":
        cfg = W.make_cfg(W.deep_update(copy.deepcopy(over), {"t4": {"enabled": False}}))
        agent = "B"
    elif mut == "relabel_graph_node":
        state["store"].upsert_nodes("g:surface", [Node(id="c", label="story")])
    res2, spy2 = W.run_turn(W.make_ctx(cfg, turn_id=2, agent=agent), state, text)
    views.append((res2.line, W.canonical(spy2.records, drop_cache_diag=True)))
    W.reset_globals()
    return views


@H.ob(model="none", quick=400, thorough=900,
      targets=("clematis/engine/orchestrator/core.py:Orchestrator.run_turn", "clematis/engine/cache.py:CacheManager.get", "clematis/engine/apply.py:apply_changes"),
      stubs=("log sink and snapshot writer captured in memory (TurnSpy); embedding adapter -> marker vectors",),
      bounds="two consecutive real run_turn calls on one state (world W3, memory M3 owned by A/B/world); mutation between them by index over {none, other agent, episode added, other text, kill switch off + other agent, graph node relabelled}; cache-bust mode on-apply / none; T4 kill switch on / off for the whole history (off = no version bump between the turns); owner scope any / agent / 'Agent' (capitalised spelling, accepted by the validator and lower-cased by the stages); all concrete (the turn cache key goes through hashing)",
      split={"mi": list(range(len(TURN_MUT))), "bust": [False, True], "t4_on": [False, True]}, per_path=200,
      note="C05.c turn-level version-keyed cache: utterance and canonical t1/t2/t4/apply/turn/health records of both turns equal those of the same history with every cache switched off (cache diagnostics excluded)")
def turn_cache(mi: int, bust: bool, scope: int, t4_on: bool) -> bool:
    """
    pre: 0 <= mi < len(TURN_MUT) and 0 <= scope <= 2
    post: _
    """
    mut = pick(TURN_MUT, mi)
    scope_agent = pick(["any", "agent", "Agent"], scope)   # the stages lower-case the scope; the validator accepts any spelling
    on = _turn_history(True, mut, bust, scope_agent, t4_on)
    off = _turn_history(False, mut, bust, scope_agent, t4_on)
    return H.verdict(on == off)
