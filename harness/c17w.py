"""C17 (turn level) — with scheduling enabled, slice budgets clamp stage work and a turn yields only at a stage boundary,
with reason precedence wall-clock > stage budget > quantum.

Real code: Orchestrator.run_turn with scheduler.enabled (the five boundary checks after T1, T2, T3 (plan), T4 and Apply are separate
copies of the same logic in run_turn, so each is exercised through the turn), _derive_budgets, _should_yield, and the
stage-side clamps in t1_propagate / t2_semantic / policy.deliberate.  Budgets are SYMBOLIC ints inside the validated
configuration; the perf counter is a fake clock whose speed is chosen by symbolic index.
"""
from __future__ import annotations

from engine import symx as H
from harness import world as W
import clematis.engine.orchestrator.core as OC
import clematis.engine.apply as AP
import clematis.engine.snapshot as S

STEPS = [0.0, 0.004, 2.0]
ORDER = ["T1", "T2", "T3", "T4", "Apply"]
BEFORE = {"T1": ["t1.jsonl"], "T2": ["t1.jsonl", "t2.jsonl"], "T3": ["t1.jsonl", "t2.jsonl"], "T4": ["t1.jsonl", "t2.jsonl", "t3_plan.jsonl", "t4.jsonl"],
          "Apply": ["t1.jsonl", "t2.jsonl", "t3_plan.jsonl", "t4.jsonl", "apply.jsonl"]}
AFTER = {"T1": ["t2.jsonl", "t3_plan.jsonl", "t3_dialogue.jsonl", "t4.jsonl", "apply.jsonl"], "T2": ["t3_plan.jsonl", "t3_dialogue.jsonl", "t4.jsonl", "apply.jsonl"],
         "T3": ["t3_plan.jsonl", "t3_dialogue.jsonl", "t4.jsonl", "apply.jsonl"], "T4": ["apply.jsonl"], "Apply": []}
# (the T3 boundary lies after deliberation and before refinement/dialogue; the t3 records are written after the dialogue)


def pick(lst, i):
    for j, v in enumerate(lst):
        if i == j:
            return v
    raise IndexError(i)


class Clock:
    def __init__(self, step):
        self.step = step
        self.pc = 0.0

    def time(self):
        return 1000.0

    def perf_counter(self):
        self.pc = self.pc + self.step
        return self.pc

    def sleep(self, s):
        pass


def _turn(budgets, quantum, step, slices=1):
    W.reset_globals()
    cfg = W.make_cfg({"t1": {"decay": {"mode": "exp_floor", "rate": 0.6, "floor": 0.05}}, "t4": {"snapshot_every_n_turns": 1000},
                      "scheduler": {"enabled": True, "quantum_ms": 20, "budgets": {"t1_pops": 4, "t1_iters": 4, "t2_k": 4, "t3_ops": 3, "wall_ms": 200}}}, memo="c17w")
    sb = cfg["scheduler"]["budgets"]
    for k in list(sb.keys()):
        if k in ("t1_pops", "t1_iters", "t2_k", "t3_ops", "wall_ms"):
            sb.pop(k)
    for k, v in budgets.items():
        if v is not None:
            sb[k] = v
    cfg["scheduler"]["quantum_ms"] = quantum
    state = W.make_state()
    ctx = W.make_ctx(cfg, turn_id=3, agent="A", now_ms=3000)
    clk = Clock(step)
    saved = (OC.time, AP.time, S.time)
    OC.time = AP.time = S.time = clk
    out = []
    try:
        for _ in range(slices):
            # a re-scheduled agent runs the same turn again on the same state (the turn-level T2 cache may now hit)
            res, spy = W.run_turn(ctx, state, "alpha beta")
            out.append((res, spy))
    finally:
        OC.time, AP.time, S.time = saved
        W.reset_globals()
    return out[0] if slices == 1 else out


def _ref_reason(budgets, quantum, consumed):
    """Independent statement of the documented precedence: wall clock > stage budget (T1 iters, T1 pops, T2 k, T3 ops) > quantum."""
    ms = consumed.get("ms", 0)
    if budgets.get("wall_ms") is not None and ms >= budgets["wall_ms"]:
        return "WALL_MS"
    for k, name in (("t1_iters", "BUDGET_T1_ITERS"), ("t1_pops", "BUDGET_T1_POPS"), ("t2_k", "BUDGET_T2_K"), ("t3_ops", "BUDGET_T3_OPS")):
        if budgets.get(k) is not None and consumed.get(k) is not None and consumed.get(k) == budgets[k]:
            return name
    if ms >= quantum:
        return "QUANTUM_EXCEEDED"
    return None


def _check(res, spy, budgets, quantum, step):
    names = spy.names()
    ok = isinstance(res.line, str)
    t1 = spy.by_stream("t1.jsonl")
    ok = ok and len(t1) == 1
    if not ok:
        return False
    # --- budgets clamp stage work
    if budgets.get("t1_pops") is not None:
        ok = ok and t1[0].get("pops") <= budgets["t1_pops"]
    if budgets.get("t1_iters") is not None:
        ok = ok and t1[0].get("iters") <= budgets["t1_iters"]
    t2 = spy.by_stream("t2.jsonl")
    if t2 and budgets.get("t2_k") is not None:
        ok = ok and t2[0].get("k_used") <= budgets["t2_k"]
    plan = spy.by_stream("t3_plan.jsonl")
    if plan and budgets.get("t3_ops") is not None:
        total = 0
        for k in (plan[0].get("ops_counts") or {}):
            total = total + plan[0]["ops_counts"][k]
        ok = ok and total <= budgets["t3_ops"]
    # --- yields only at a stage boundary, reason by precedence
    ev = spy.by_stream("scheduler.jsonl")
    turn = spy.by_stream("turn.jsonl")
    ok = ok and len(turn) == 1 and len(ev) <= 1
    if not ok:
        return False
    if ev:
        e = ev[0]
        stage = e.get("stage_end")
        ok = ok and stage in ORDER and bool(turn[0].get("yielded")) and turn[0].get("yield_reason") == e.get("reason")
        if not ok:
            return False
        for n in BEFORE[stage]:
            ok = ok and names.count(n) == 1
        for n in AFTER[stage]:
            ok = ok and n not in names
        ok = ok and e.get("reason") == _ref_reason(budgets, quantum, e.get("consumed") or {})
        ok = ok and e.get("reason") is not None
        # the consumed counters reported at the boundary are the stage's own counters
        c = e.get("consumed") or {}
        if "t1_pops" in c:
            ok = ok and c["t1_pops"] == t1[0].get("pops")
        if "t2_k" in c and t2:
            ok = ok and c["t2_k"] == t2[0].get("k_used")
    else:
        ok = ok and not turn[0].get("yielded") and "apply.jsonl" in names
        # no yield although a stage budget was reached exactly: budget equality is clock independent
        if budgets.get("t1_pops") is not None:
            ok = ok and t1[0].get("pops") != budgets["t1_pops"]
        if budgets.get("t1_iters") is not None:
            ok = ok and t1[0].get("iters") != budgets["t1_iters"]
        if budgets.get("t2_k") is not None and t2:
            ok = ok and t2[0].get("k_used") != budgets["t2_k"]
        if step == 0.0:
            # frozen perf counter: elapsed is 0 at every boundary
            ok = ok and quantum > 0 and (budgets.get("wall_ms") is None or budgets["wall_ms"] > 0)
    return ok


_T = ("clematis/engine/orchestrator/core.py:Orchestrator.run_turn", "clematis/engine/orchestrator/core.py:_should_yield", "clematis/engine/orchestrator/core.py:_derive_budgets",
      "clematis/engine/stages/t1.py:t1_propagate", "clematis/engine/stages/t2/core.py:t2_semantic", "clematis/engine/stages/t3/policy.py:deliberate")
_S = ("TurnSpy log/snapshot capture", "orchestrator.core.time / apply.time / snapshot.time -> fake clock (perf counter advancing by a step chosen from {0, 4 ms, 2 s} per reading)")


@H.ob(model="none", quick=400, thorough=900, per_path=200, targets=_T, stubs=_S,
      bounds="one real turn on world W3/M3 with scheduler.enabled; stage budgets t1_pops in [0,8], t2_k in [0,4], t3_ops in [0,4] symbolic ints (0 is a legal budget) (t1_iters absent), wall_ms absent, quantum_ms symbolic int in [0, 10^7]; perf-counter speed by index over 3",
      split={"si": [0, 1, 2]},
      note="C17.e stage budgets: pops/k_used/plan ops never exceed their slice budget; the turn yields at most once, only at a stage boundary (every stage before it logged exactly once, nothing of a later stage, no apply), the reason equals the documented precedence applied to the consumed counters reported at that boundary, and a turn that reaches a stage budget exactly does yield")
def turn_budgets(pops: int, k: int, ops: int, quantum: int, si: int) -> bool:
    """
    pre: 0 <= pops <= 8 and 0 <= k <= 4 and 0 <= ops <= 4 and 0 <= quantum <= 10000000 and 0 <= si <= 2
    post: _
    """
    budgets = {"t1_pops": pops, "t2_k": k, "t3_ops": ops}
    step = pick(STEPS, si)
    try:
        res, spy = _turn(budgets, quantum, step)
    except Exception:
        return False
    return H.verdict(_check(res, spy, budgets, quantum, step))


@H.ob(model="none", quick=400, thorough=900, per_path=200, targets=_T, stubs=_S,
      bounds="one real turn on world W3/M3 with scheduler.enabled; wall_ms and quantum_ms symbolic ints in [0, 10^7]; t1_iters symbolic in [0,4]; other stage budgets absent; perf-counter speed by index over 3",
      split={"si": [0, 1, 2]},
      note="C17.e clock budgets: wall-clock budget beats stage budget beats quantum at whichever boundary fires first; iteration budget clamps T1 layers")
def turn_clock(wall: int, quantum: int, iters: int, si: int) -> bool:
    """
    pre: 0 <= wall <= 10000000 and 0 <= quantum <= 10000000 and 0 <= iters <= 4 and 0 <= si <= 2
    post: _
    """
    budgets = {"wall_ms": wall, "t1_iters": iters}
    step = pick(STEPS, si)
    try:
        res, spy = _turn(budgets, quantum, step)
    except Exception:
        return False
    return H.verdict(_check(res, spy, budgets, quantum, step))


@H.ob(model="none", quick=400, thorough=900, per_path=200, targets=_T, stubs=_S,
      bounds="two consecutive slices of the same turn (same agent, text, now) on one state, so that the second may be served from the turn-level retrieval cache; t2_k in [0,4] and quantum_ms in [0,10^7] symbolic; other budgets absent; perf-counter speed by index over 3",
      split={"si": [0, 1, 2]},
      note="C17.e re-scheduled slices: the budget clamp, the boundary-only yield and the reason precedence hold on the second slice exactly as on the first (cached stage results consume their budget too)")
def turn_rescheduled(k: int, quantum: int, si: int) -> bool:
    """
    pre: 0 <= k <= 4 and 0 <= quantum <= 10000000 and 0 <= si <= 2
    post: _
    """
    budgets = {"t2_k": k}
    step = pick(STEPS, si)
    try:
        runs = _turn(budgets, quantum, step, slices=2)
    except Exception:
        return False
    ok = True
    for res, spy in runs:
        ok = ok and _check(res, spy, budgets, quantum, step)
    # the slices see the same state and inputs: same boundary, same reason
    e0, e1 = runs[0][1].by_stream("scheduler.jsonl"), runs[1][1].by_stream("scheduler.jsonl")
    if step == 0.0:
        ok = ok and [(e.get("stage_end"), e.get("reason")) for e in e0] == [(e.get("stage_end"), e.get("reason")) for e in e1]
    return H.verdict(ok)
