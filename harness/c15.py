"""C15 — bounded caches never exceed capacity and evict deterministically.

One inductive step per container and operation: the pre-state is built directly
(<= 3 entries, keys concrete and distinct; LRU position, costs, timestamps, caps
symbolic and unbounded), assumed to satisfy the representation invariant; one
real operation with symbolic arguments; the invariant and the operation
contract are asserted afterwards.  The invariant holds trivially for the empty
container (n = 0 is one of the explored sizes), so by induction it holds after
any operation sequence whose intermediate states have <= 3 entries.
"""
from __future__ import annotations

from collections import OrderedDict

from engine import symx as H
from clematis.engine.util.lru_bytes import LRUBytes
from clematis.engine.util.lru_det import DeterministicLRU, DeterministicLRUSet
from clematis.engine.util.ring import DedupeRing
from clematis.engine import cache as C

KEYS = ["k0", "k1", "k2"]
PERMS = [[0, 1, 2], [0, 2, 1], [1, 0, 2], [1, 2, 0], [2, 0, 1], [2, 1, 0]]


# ----------------------------------------------------------------- LRUBytes
def _mk_lb(me, mb, n, costs, perm):
    c = LRUBytes(me, mb)
    order = [KEYS[i] for i in PERMS[perm] if i < n]
    for k in order:
        i = KEYS.index(k)
        c._q.append(k)
        c._map[k] = ("v" + k, costs[i])
        c._bytes += costs[i]
    return c


def _inv_lb(c) -> bool:
    keys = list(c._q)
    if len(keys) != len(set(keys)):
        return False
    if set(keys) != set(c._map.keys()):
        return False
    tot = 0
    for k in keys:
        if c._map[k][1] < 0:
            return False
        tot = tot + c._map[k][1]
    if tot != c._bytes:
        return False
    if c.max_entries > 0 and len(c._map) > c.max_entries:
        return False
    if c.max_bytes > 0 and c._bytes > c.max_bytes:
        return False
    return True


@H.ob(model="none", quick=240, thorough=600,
      targets=("clematis/engine/util/lru_bytes.py:LRUBytes.put",),
      bounds="pre-state: 0..3 entries in any LRU order, costs/caps unbounded ints >= 0 satisfying the invariant; key = one of the 3 present keys or a new key; new cost unbounded (negative allowed)",
      note="C15 LRUBytes.put inductive step: invariant, exact byte accounting, strict LRU-first eviction, oversize reject, MRU placement, return value")
def lb_put(me: int, mb: int, n: int, c0: int, c1: int, c2: int, perm: int, ki: int, cost: int) -> bool:
    """
    pre: me >= 0 and mb >= 0 and (me > 0 or mb > 0)
    pre: 0 <= n <= 3 and 0 <= ki <= 3 and 0 <= perm < 6
    pre: c0 >= 0 and c1 >= 0 and c2 >= 0
    pre: _inv_lb(_mk_lb(me, mb, n, [c0, c1, c2], perm))
    post: _
    """
    c = _mk_lb(me, mb, n, [c0, c1, c2], perm)
    before = list(c._q)
    costs_before = {k: c._map[k][1] for k in before}
    key = KEYS[ki] if ki < 3 else "new"
    evicted = []
    c.on_evict = lambda k, v, b: evicted.append((k, b))
    evn, evb = c.put(key, 99, cost)
    if not _inv_lb(c):
        return False
    after = list(c._q)
    eff = cost if cost > 0 else 0
    rest = [k for k in before if k != key]
    if mb > 0 and eff > mb:
        # oversize: rejected, nothing changes
        return H.verdict(after == before and (evn, evb) == (0, 0) and c._bytes == sum(costs_before.values()))
    surv = [k for k in after if k != key]
    # survivors are a suffix of the old order (evicted = LRU prefix), order preserved
    if surv != rest[len(rest) - len(surv):]:
        return False
    gone = rest[: len(rest) - len(surv)]
    if evn != len(gone) or evb != sum(costs_before[k] for k in gone):
        return False
    if [k for k, _ in evicted] != gone:
        return False
    # accepted put lands at MRU with the new cost and value
    if key not in c._map or after[-1] != key or c._map[key] != (99, eff):
        return False
    # minimal eviction: putting back the most recently evicted entry would break a cap
    if gone:
        k = gone[-1]
        n_after = len(after) + 1
        b_after = c._bytes + costs_before[k]
        if not ((me > 0 and n_after > me) or (mb > 0 and b_after > mb)):
            return False
    return H.verdict(True)


@H.ob(model="none", quick=120, thorough=300,
      targets=("clematis/engine/util/lru_bytes.py:LRUBytes.get", "clematis/engine/util/lru_bytes.py:LRUBytes.contains", "clematis/engine/util/lru_bytes.py:LRUBytes.items"),
      bounds="as lb_put; key index 0..3",
      note="C15 LRUBytes.get moves to MRU and changes nothing else; items()/contains() do not touch recency")
def lb_get(me: int, mb: int, n: int, c0: int, c1: int, c2: int, perm: int, ki: int) -> bool:
    """
    pre: me >= 0 and mb >= 0 and (me > 0 or mb > 0)
    pre: 0 <= n <= 3 and 0 <= ki <= 3 and 0 <= perm < 6
    pre: c0 >= 0 and c1 >= 0 and c2 >= 0
    pre: _inv_lb(_mk_lb(me, mb, n, [c0, c1, c2], perm))
    post: _
    """
    c = _mk_lb(me, mb, n, [c0, c1, c2], perm)
    before = list(c._q)
    bytes_before = c._bytes
    key = KEYS[ki] if ki < 3 else "new"
    its = list(c.items())
    has = key in c
    if list(c._q) != before or [k for k, _ in its] != before or has != (key in before):
        return False
    v = c.get(key)
    if not _inv_lb(c) or c._bytes != bytes_before:
        return False
    if key in before:
        ok = v == "v" + key and list(c._q) == [k for k in before if k != key] + [key]
    else:
        ok = v is None and list(c._q) == before
    return H.verdict(ok)


@H.ob(model="none", quick=60, thorough=120,
      targets=("clematis/engine/util/lru_bytes.py:LRUBytes.put",),
      bounds="both caps zero (or None); 3 puts with unbounded symbolic costs",
      note="C15 zero capacities act as a disabled cache")
def lb_disabled(c0: int, c1: int, c2: int, none_caps: bool) -> bool:
    """
    post: _
    """
    c = LRUBytes(None if none_caps else 0, 0)
    r = [c.put("a", 1, c0), c.put("b", 2, c1), c.put("a", 3, c2)]
    ok = r == [(0, 0)] * 3 and len(c) == 0 and c.size_bytes() == 0 and c.get("a") is None and ("a" not in c) and list(c.items()) == []
    return H.verdict(ok)


# ----------------------------------------------------------------- TTL LRU
class Clk:
    def __init__(self, t):
        self.t = t

    def __call__(self):
        return self.t


def _mk_ns(mx, ttl, n, ts, perm, clk):
    ns = C._NamespaceCache(mx, ttl, clk)
    for i in PERMS[perm]:
        if i < n:
            ns._d[KEYS[i]] = C._Entry(ts=ts[i], value="v" + KEYS[i])
    return ns


@H.ob(model="realfin", quick=240, thorough=600,
      targets=("clematis/engine/cache.py:_NamespaceCache.get", "clematis/engine/cache.py:_NamespaceCache.set"),
      bounds="pre-state 0..3 entries (LRU order k0,k1,k2; keys are interchangeable and every timestamp is an independent symbolic real <= now, so every order/age pattern is covered); capacity (>= 0) and ttl (>= 0) unbounded ints; injected clock symbolic",
      split={"n": [0, 1, 2, 3]},
      note="C15 TTL-LRU: expiry strictly by now - ts > ttl via the injected clock, ttl=0 never expires, hit moves to MRU, set evicts the LRU prefix down to capacity, capacity 0 = disabled")
def ns_step(mx: int, ttl: int, n: int, t0: float, t1: float, t2: float, now: float, ki: int, do_set: bool) -> bool:
    """
    pre: mx >= 0 and ttl >= 0 and 0 <= n <= 3 and n <= mx and 0 <= ki <= 3
    pre: t0 <= now and t1 <= now and t2 <= now
    post: _
    """
    clk = Clk(now)
    ts = [t0, t1, t2]
    ns = _mk_ns(mx, ttl, n, ts, 0, clk)
    before = list(ns._d.keys())
    key = KEYS[ki] if ki < 3 else "new"
    if do_set:
        ev = ns.set(key, "NEW")
        after = list(ns._d.keys())
        if len(after) > mx:
            return False
        rest = [k for k in before if k != key]
        full = rest + [key]
        keep = full[len(full) - min(len(full), mx):] if mx > 0 else []
        ok = after == keep and ev == len(full) - len(keep)
        if key in ns._d:
            ok = ok and ns._d[key].ts == now and ns._d[key].value == "NEW"
        return H.verdict(ok)
    hit, val = ns.get(key)
    after = list(ns._d.keys())
    if key not in before:
        return H.verdict((hit, val) == (False, None) and after == before)
    age = now - ts[KEYS.index(key)]
    expired = ttl != 0 and age > ttl
    if expired:
        ok = (hit, val) == (False, None) and after == [k for k in before if k != key]
    else:
        ok = (hit, val) == (True, "v" + key) and after == [k for k in before if k != key] + [key]
    return H.verdict(ok and ns.size() == len(after))


@H.ob(model="realfin", quick=240, thorough=600,
      targets=("clematis/engine/cache.py:LRUCache.get", "clematis/engine/cache.py:LRUCache.set", "clematis/engine/cache.py:LRUCache.__contains__", "clematis/engine/cache.py:LRUCache.items", "clematis/engine/cache.py:LRUCache.stats"),
      bounds="LRUCache shim over a 0..3-entry pre-state (symmetric keys, independent symbolic timestamps); op index over {get,get2,set,contains,items,invalidate}; symbolic clock/ttl/capacity",
      split={"op": [0, 1, 2, 3, 4, 5]},
      note="C15 LRUCache: stats arithmetic, TTL-pruning membership/items without recency change")
def lru_shim_step(mx: int, ttl: int, n: int, t0: float, t1: float, t2: float, now: float, ki: int, op: int) -> bool:
    """
    pre: mx >= 1 and ttl >= 0 and 0 <= n <= 3 and n <= mx and 0 <= ki <= 3 and 0 <= op <= 5
    pre: t0 <= now and t1 <= now and t2 <= now
    post: _
    """
    clk = Clk(now)
    ts = [t0, t1, t2]
    c = C.LRUCache(max_entries=mx, ttl_s=ttl, time_fn=clk)
    c._ns = _mk_ns(mx, ttl, n, ts, 0, clk)
    before = list(c._ns._d.keys())
    key = KEYS[ki] if ki < 3 else "new"
    live = [k for k in before if not (ttl != 0 and now - ts[KEYS.index(k)] > ttl)]
    s0 = dict(c.stats)
    if op == 0 or op == 1:
        r = c.get(key) if op == 0 else c.get2(key)
        hit = key in live
        exp_r = (("v" + key) if hit else None) if op == 0 else ((True, "v" + key) if hit else (False, None))
        s1 = c.stats
        ok = r == exp_r and s1["hits"] == s0["hits"] + (1 if hit else 0) and s1["misses"] == s0["misses"] + (0 if hit else 1)
        exp_after = ([k for k in before if k != key] + [key]) if hit else [k for k in before if k != key or key not in before or False]
        if not hit and key in before:
            exp_after = [k for k in before if k != key]
        ok = ok and list(c._ns._d.keys()) == exp_after and s1["size"] == len(exp_after)
    elif op == 2:
        c.set(key, "NEW")
        after = list(c._ns._d.keys())
        full = [k for k in before if k != key] + [key]
        keep = full[len(full) - min(len(full), mx):]
        ok = after == keep and c.stats["evicted"] == s0["evicted"] + len(full) - len(keep) and len(c) == len(keep)
    elif op == 3:
        r = key in c
        after = list(c._ns._d.keys())
        exp_after = before if (key in live or key not in before) else [k for k in before if k != key]
        ok = r == (key in live) and after == exp_after
    elif op == 4:
        its = c.items()
        ok = [k for k, _ in its] == live and list(c._ns._d.keys()) == live and all(v == "v" + k for k, v in its)
    else:
        r = c.invalidate()
        ok = r == len(before) and len(c) == 0
    return H.verdict(ok)


@H.ob(model="realfin", quick=240, thorough=600,
      targets=("clematis/engine/cache.py:CacheManager.get", "clematis/engine/cache.py:CacheManager.set", "clematis/engine/cache.py:CacheManager.invalidate_namespace", "clematis/engine/cache.py:CacheManager.invalidate_all"),
      bounds="two namespaces, 3-operation symbolic sequence (first a set) over {set,get,invalidate_ns,invalidate_all} x {ns1,ns2} x {2 tuple keys}; clock non-decreasing symbolic; capacity/ttl symbolic",
      split={"mx": [0, 1, 2], "o0": [0, 1, 2, 3]},
      note="C15 CacheManager: per-namespace capacity, namespace isolation, stats arithmetic vs an independent reference model")
def cm_seq(mx: int, ttl: int, t0: float, d1: float, d2: float, o0: int, o1: int, o2: int) -> bool:
    """
    pre: 0 <= mx <= 2 and ttl >= 0 and d1 >= 0 and d2 >= 0
    pre: 0 <= o0 < 4 and 0 <= o1 < 16 and 0 <= o2 < 16
    post: _
    """
    clk = Clk(t0)
    cm = C.CacheManager(max_entries=mx, ttl_sec=ttl, time_fn=clk)
    ref = {"n1": [], "n2": []}  # list of (key, ts, val) LRU->MRU
    hits = misses = evicted = 0
    keyobjs = [("a",), ("u", 1)]
    times = [t0, t0 + d1, t0 + d1 + d2]
    ok = True
    for step, o in enumerate((o0, o1, o2)):
        clk.t = times[step]
        now = times[step]
        kind, nsi, ki = o // 4, (o // 2) % 2, o % 2
        ns = "n1" if nsi == 0 else "n2"
        kobj = keyobjs[ki]
        kid = ki
        if kind == 0:
            cm.set(ns, kobj, step)
            lst = [e for e in ref[ns] if e[0] != kid] + [(kid, now, step)]
            while len(lst) > mx:
                lst.pop(0)
                evicted += 1
            ref[ns] = lst
        elif kind == 1:
            r = cm.get(ns, kobj)
            ent = next((e for e in ref[ns] if e[0] == kid), None)
            if ent is not None and ttl != 0 and now - ent[1] > ttl:
                ref[ns] = [e for e in ref[ns] if e[0] != kid]
                ent = None
            if ent is None:
                misses += 1
                ok = ok and r == (False, None)
            else:
                hits += 1
                ref[ns] = [e for e in ref[ns] if e[0] != kid] + [ent]
                ok = ok and r == (True, ent[2])
        elif kind == 2:
            r = cm.invalidate_namespace(ns)
            ok = ok and r == len(ref[ns])
            ref[ns] = []
        else:
            r = cm.invalidate_all()
            ok = ok and r == len(ref["n1"]) + len(ref["n2"])
            ref = {"n1": [], "n2": []}
        st = cm.stats
        ok = ok and st == {"hits": hits, "misses": misses, "evicted": evicted, "size": len(ref["n1"]) + len(ref["n2"])}
        for nn in ("n1", "n2"):
            o_ns = cm._ns.get(nn)
            have = [v.value for v in o_ns._d.values()] if o_ns is not None else []
            ok = ok and have == [e[2] for e in ref[nn]] and len(have) <= mx
    return H.verdict(ok)


# ----------------------------------------------------------------- deterministic LRU map / set / ring
@H.ob(model="none", quick=120, thorough=300,
      targets=("clematis/engine/util/lru_det.py:DeterministicLRU.put", "clematis/engine/util/lru_det.py:DeterministicLRU.get"),
      bounds="pre-state 0..3 entries any order, cap unbounded int (negative = disabled), update_on_get/put symbolic, op in {put,get,pop_lru}",
      split={"op": [0, 1, 2]},
      note="C15 DeterministicLRU inductive step")
def dlru_step(cap: int, n: int, perm: int, ki: int, op: int, ug: bool, up: bool) -> bool:
    """
    pre: 0 <= n <= 3 and 0 <= ki <= 3 and 0 <= perm < 6 and 0 <= op <= 2
    pre: cap <= 0 or n <= cap
    post: _
    """
    c = DeterministicLRU(cap, update_on_get=ug, update_on_put=up)
    order = [KEYS[i] for i in PERMS[perm] if i < n]
    if c.enabled:
        for k in order:
            c._q.append(k)
            c._map[k] = "v" + k
    else:
        order = []
    key = KEYS[ki] if ki < 3 else "new"
    if not c.enabled:
        ok = c.put(key, 1) is None and c.get(key, "d") == "d" and len(c) == 0 and key not in c and list(c.items()) == [] and c.pop_lru() is None
        return H.verdict(ok)
    if op == 0:
        ev = c.put(key, "NEW")
        after = [k for k, _ in c.items()]
        if key in order:
            exp = ([k for k in order if k != key] + [key]) if up else order
            ok = ev is None and after == exp
        else:
            full = order + [key]
            keep = full[len(full) - min(len(full), c.cap):]
            gone = full[: len(full) - len(keep)]
            ok = after == keep and (ev == ((gone[-1], "v" + gone[-1]) if gone else None))
        ok = ok and c._map.get(key) == "NEW" and len(c) <= c.cap
    elif op == 1:
        v = c.get(key, "d")
        after = [k for k, _ in c.items()]
        if key in order:
            ok = v == "v" + key and after == (([k for k in order if k != key] + [key]) if ug else order)
        else:
            ok = v == "d" and after == order
    else:
        r = c.pop_lru()
        after = [k for k, _ in c.items()]
        ok = (r == ((order[0], "v" + order[0]) if order else None)) and after == order[1:]
    return H.verdict(ok and set(c._q) == set(c._map) and len(c._q) == len(c._map))


@H.ob(model="none", quick=90, thorough=200,
      targets=("clematis/engine/util/lru_det.py:DeterministicLRUSet.add", "clematis/engine/util/ring.py:DeterministicLRU.add"),
      bounds="pre-state 0..3 members any order; cap unbounded int; both implementations (lru_det set and ring.DeterministicLRU)",
      note="C15 DeterministicLRUSet: FIFO eviction, size <= cap, cap<=0 disabled")
def dset_step(cap: int, n: int, perm: int, ki: int, which: bool) -> bool:
    """
    pre: 0 <= n <= 3 and 0 <= ki <= 3 and 0 <= perm < 6
    pre: cap <= 0 or n <= cap
    post: _
    """
    from clematis.engine.util import ring as R

    s = DeterministicLRUSet(cap) if which else R.DeterministicLRU(cap)
    order = [KEYS[i] for i in PERMS[perm] if i < n]
    key = KEYS[ki] if ki < 3 else "new"
    if not s.enabled:
        return H.verdict(s.add(key) is False and key not in s and len(s) == 0)
    for k in order:
        s._q.append(k)
        s._set[k] = None
    ev = s.add(key)
    after = list(s._q)
    if key in order:
        ok = ev is False and after == order
    else:
        full = order + [key]
        keep = full[len(full) - min(len(full), s.cap):]
        ok = after == keep and ev == (len(keep) < len(full))
    ok = ok and set(s._set) == set(after) and len(s) <= s.cap and all((k in s) == (k in after) for k in KEYS + ["new"])
    return H.verdict(ok)


@H.ob(model="none", quick=120, thorough=300,
      targets=("clematis/engine/util/ring.py:DedupeRing.add", "clematis/engine/util/ring.py:DedupeRing.extend", "clematis/engine/util/ring.py:DedupeRing.contains"),
      bounds="pre-state: ring of 0..3 slots holding symbols from {x,y} chosen by symbolic bits (duplicates allowed), capacity unbounded int; add of x, y or z; then extend with two more",
      split={"n": [0, 1, 2, 3]},
      note="C15 DedupeRing: len <= k, refcounts equal multiplicities, membership = presence in the window, FIFO eviction")
def ring_step(k: int, n: int, bits: int, ai: int, e0: int, e1: int) -> bool:
    """
    pre: 0 <= n <= 3 and 0 <= bits < 8 and 0 <= ai <= 2 and 0 <= e0 <= 2 and 0 <= e1 <= 2
    pre: k <= 0 or n <= k
    post: _
    """
    syms = ["x", "y", "z"]
    r = DedupeRing(k)
    if not r.enabled:
        r.add("x")
        r.extend(["y", "x"])
        return H.verdict(len(r) == 0 and "x" not in r and r.tolist() == [])
    win = [syms[(bits >> i) & 1] for i in range(n)]
    for s in win:
        r._q.append(s)
        r._ref[s] = r._ref.get(s, 0) + 1
    ok = True
    for s in (syms[ai], syms[e0], syms[e1]):
        r.add(s)
        win = win + [s]
        while len(win) > r.k:
            win = win[1:]
        ok = ok and r.tolist() == win and len(r) <= r.k
        for t in syms:
            ok = ok and (t in r) == (t in win) and r._ref.get(t, 0) == win.count(t)
    return H.verdict(ok)


# ----------------------------------------------------------------- merge + wrappers
@H.ob(model="none", quick=240, thorough=600,
      targets=("clematis/engine/cache.py:merge_caches_deterministic", "clematis/engine/cache.py:ThreadSafeCache.put"),
      bounds="3 worker caches (DeterministicLRU, cap 4) holding symbolic subsets of keys {a,b} (thorough: {a,b,c} for two workers) with symbolic int values, listed in every permutation; per-worker insertion order symbolic; target capacity symbolic 1..3, wrapped in ThreadSafeCache",
      split={"perm": [0, 1, 2, 3, 4, 5]},
      note="C15 merging per-worker caches is independent of the order in which workers are listed and of per-worker key insertion order; first-wins by worker id")
def merge_det(p0: int, p1: int, p2: int, v0: int, v1: int, v2: int, perm: int, rev: bool, cap: int) -> bool:
    """
    pre: 0 <= p0 < (8 if H.THOROUGH else 4) and 0 <= p1 < (8 if H.THOROUGH else 4) and 0 <= p2 < 4 and 0 <= perm < 6 and 1 <= cap <= 3
    post: _
    """
    ks = ["a", "b", "c"]

    def worker(pres, val, reverse):
        w = DeterministicLRU(4)
        order = list(reversed(ks)) if reverse else ks
        for k in order:
            if (pres >> ks.index(k)) & 1:
                w.put(k, (val, k))
        return w

    def run(order_idx, reverse):
        ws = [("w0", worker(p0, v0, reverse)), ("w1", worker(p1, v1, reverse)), ("w2", worker(p2, v2, reverse))]
        ws = [ws[i] for i in PERMS[order_idx]]
        tgt = C.ThreadSafeCache(DeterministicLRU(cap))
        C.merge_caches_deterministic(tgt, ws, worker_order_key=lambda w: w, key_order_key=lambda k: k)
        return list(tgt.items())

    base = run(0, False)
    got = run(perm, rev)
    # reference: workers in id order, keys sorted, first wins, LRU target of capacity cap
    exp = []
    for pres, val in ((p0, v0), (p1, v1), (p2, v2)):
        for k in ks:
            if (pres >> ks.index(k)) & 1 and all(e[0] != k for e in exp):
                exp.append((k, (val, k)))
                if len(exp) > cap:
                    exp.pop(0)
    return H.verdict(got == base and base == exp)


@H.ob(model="none", quick=180, thorough=400,
      targets=("clematis/engine/cache.py:ThreadSafeBytesCache.put", "clematis/engine/cache.py:ThreadSafeBytesCache.get", "clematis/engine/cache.py:ThreadSafeCache.get"),
      bounds="single-thread 3-operation sequences (symbolic op/key/cost) on ThreadSafeBytesCache(LRUBytes) vs the bare LRUBytes; caps symbolic",
      split={"o0": [0, 1, 2, 3, 4, 5]},
      note="C15 lock wrappers are functionally transparent (single thread); real multi-thread interleavings are outside the claim")
def wrapper_equiv(me: int, mb: int, o0: int, o1: int, o2: int, c0: int, c1: int, c2: int) -> bool:
    """
    pre: 0 <= me <= 2 and mb >= 0
    pre: 0 <= o0 < 6 and 0 <= o1 < 6 and 0 <= o2 < 6
    pre: c0 >= 0 and c1 >= 0 and c2 >= 0
    post: _
    """
    bare = LRUBytes(me, mb)
    wrapped = C.ThreadSafeBytesCache(LRUBytes(me, mb))
    ok = True
    for o, c in ((o0, c0), (o1, c1), (o2, c2)):
        key = ["a", "b", "c"][o % 3]
        if o < 3:
            ok = ok and bare.put(key, o, c) == wrapped.put(key, o, c)
        else:
            ok = ok and bare.get(key) == wrapped.get(key)
        ok = ok and list(bare.items()) == wrapped.items() and (key in bare) == (key in wrapped)
        ok = ok and bare.size_bytes() == wrapped._inner.size_bytes() and _inv_lb(wrapped._inner)
    return H.verdict(ok)
