"""Shared concrete fixtures for the stage- and turn-level harnesses (not an obligation module).

World W3: store with graph g:surface (nodes a/b/c labelled alpha/beta/gamma; a->b supports, b->c associates),
optional second graph g:two; memory M3: three episodes e1..e3 with marker vectors, owners A / B / world,
concrete timestamps.  Contexts carry cfg and config pointing at the same validated configuration.
"""
from __future__ import annotations

import copy
import os
from types import SimpleNamespace as NS

import numpy as np

from configs.validate import validate_config
from clematis.engine.types import Node, Edge
from clematis.graph.store import InMemoryGraphStore
from clematis.memory.index import InMemoryIndex
import clematis.memory.index as MI
import clematis.engine.stages.t1 as T1M
import clematis.engine.stages.t2.cache as T2C
import clematis.engine.stages.t2.core as T2CORE
import clematis.engine.orchestrator.core as OCORE
import clematis.engine.snapshot as SNAP
import clematis.engine.apply as APPLY

NOW = "2025-01-10T00:00:00Z"


class AttrDict(dict):
    def __getattr__(self, name):
        try:
            return self[name]
        except KeyError as e:
            raise AttributeError(name) from e

    def __setattr__(self, name, value):
        self[name] = value


def to_attr(obj):
    if isinstance(obj, dict):
        return AttrDict({k: to_attr(v) for k, v in obj.items()})
    if isinstance(obj, list):
        return [to_attr(v) for v in obj]
    return obj


def deep_update(dst, src):
    for k, v in src.items():
        if isinstance(v, dict) and isinstance(dst.get(k), dict):
            deep_update(dst[k], v)
        else:
            dst[k] = v
    return dst


def scratch_dir(name="snap"):
    d = os.path.join(os.environ.get("VERIF_SCRATCH") or os.getcwd(), name)
    return d


_CFG_MEMO = {}


def make_cfg(over=None, validate=True, memo=None):
    """memo: a hashable key naming a CONCRETE override; the validated result is computed once per process and
    deep-copied afterwards (validating the same concrete dict on every explored path is pure overhead)."""
    if memo is not None and validate and memo in _CFG_MEMO:
        return copy.deepcopy(_CFG_MEMO[memo])
    base = {"t4": {"snapshot_dir": scratch_dir("snaps")}}
    if over:
        deep_update(base, copy.deepcopy(over))
    cfg = validate_config(base) if validate else base
    if memo is not None and validate:
        _CFG_MEMO[memo] = copy.deepcopy(cfg)
    return cfg


def make_ctx(cfg, turn_id=1, agent="A", now=NOW, **extra):
    ad = to_attr(cfg)
    ctx = NS(turn_id=turn_id, agent_id=agent, now=now, cfg=ad, config=ad, enc=MarkerEncoder())
    for k, v in extra.items():
        setattr(ctx, k, v)
    return ctx


class MarkerEncoder:
    """Deterministic stub embedding adapter: the query vector is a fixed marker."""

    def encode(self, texts):
        return [np.asarray([9.0, 0.0, 0.0, 0.0], dtype=np.float32) for _ in texts]


def marker_vec(i):
    return [float(i + 1), 1.0, 0.0, 0.0]


def make_store(w_ab=0.8, w_bc=0.5, two=False, extra_edges=()):
    store = InMemoryGraphStore()
    store.upsert_nodes("g:surface", [Node(id="a", label="alpha"), Node(id="b", label="beta"), Node(id="c", label="gamma")])
    edges = [Edge(id="e_ab", src="a", dst="b", weight=w_ab, rel="supports"), Edge(id="e_bc", src="b", dst="c", weight=w_bc, rel="associates")]
    edges += list(extra_edges)
    store.upsert_edges("g:surface", edges)
    if two:
        store.upsert_nodes("g:two", [Node(id="x", label="alpha"), Node(id="y", label="delta")])
        store.upsert_edges("g:two", [Edge(id="e_xy", src="x", dst="y", weight=0.7, rel="supports")])
    return store


EP_TS = ["2025-01-09T00:00:00Z", "2025-01-05T00:00:00Z", "2024-06-01T00:00:00Z"]
EP_TEXT = ["alpha beta notes", "beta gamma story", "gamma only"]


def make_index(owners=("A", "B", "world"), n=3, clusters=(None, None, None), importance=(0.5, 0.5, 0.5), ts=None):
    idx = InMemoryIndex()
    ts = ts or EP_TS
    for i in range(n):
        ep = {"id": "e%d" % (i + 1), "owner": owners[i], "text": EP_TEXT[i], "ts": ts[i], "vec_full": marker_vec(i),
              "aux": {"importance": importance[i]}}
        if clusters[i]:
            ep["aux"]["cluster_id"] = clusters[i]
        idx.add(ep)
    return idx


def make_state(store=None, index=None, two=False, version="5"):
    st = {"store": store if store is not None else make_store(two=two), "active_graphs": ["g:surface"] + (["g:two"] if two else []),
          "version_etag": version, "_boot_loaded": True, "mem_index": index if index is not None else make_index(), "mem_backend": "inmemory"}
    return st


def reset_globals():
    T1M._T1_CACHE = None
    T1M._T1_CACHE_CFG = None
    T1M._T1_CACHE_KIND = None
    T2C._T2_CACHE = None
    T2C._T2_CACHE_CFG = None
    T2C._T2_CACHE_KIND = None


class CosineStub:
    """Replaces clematis.memory.index._cosine: the score of a stored vector is looked up by its marker
    (first component); unknown vectors (e.g. cluster centroids) score `default`."""

    def __init__(self, scores, default=0.5, extra=None):
        self.scores = list(scores)
        self.default = default
        self.extra = extra or {}
        self.saved = None

    def __call__(self, a, b):
        try:
            m = float(b[0])
            one = float(b[1])
        except Exception:
            return self.default
        key = round(m, 3)
        if one == 1.0 and key == int(key) and 1 <= int(key) <= len(self.scores):
            return self.scores[int(key) - 1]
        return self.extra.get(key, self.default)

    def __enter__(self):
        self.saved = MI._cosine
        MI._cosine = self
        return self

    def __exit__(self, *a):
        MI._cosine = self.saved
        return False


class NumpyShim:
    """np.mean / np.max on lists of symbolic floats realise; t2.core only uses them for metrics."""

    def __enter__(self):
        real = T2CORE.np

        class Shim:
            def __getattr__(s, n):
                return getattr(real, n)

            @staticmethod
            def mean(xs):
                xs = list(xs)
                t = 0.0
                for x in xs:
                    t = t + x
                return t / len(xs)

            @staticmethod
            def max(xs):
                xs = list(xs)
                m = xs[0]
                for x in xs[1:]:
                    if x > m:
                        m = x
                return m

        self.real = real
        T2CORE.np = Shim()
        return self

    def __exit__(self, *a):
        T2CORE.np = self.real
        return False


class TurnSpy:
    """Captures every log record (after CI identity normalisation) and every snapshot body of a run_turn call;
    nothing reaches the disk."""

    def __init__(self):
        self.records = []
        self.snapshots = []
        self.sidecars = []

    def __enter__(self):
        import clematis.engine.util.io_logging as IOL
        import clematis.engine.orchestrator.logging as OLOG

        self._saved = (OCORE._append_jsonl, SNAP.atomic_write_text, OLOG._append_jsonl)

        def sink(name, rec):
            self.records.append((name, IOL.normalize_for_identity(os.path.basename(name), dict(rec))))

        def snap_sink(path, text, **kw):
            if str(path).endswith(".meta"):
                self.sidecars.append((os.path.basename(str(path)), text))
            else:
                self.snapshots.append((os.path.basename(str(path)), text))

        OCORE._append_jsonl = sink
        OLOG._append_jsonl = sink
        SNAP.atomic_write_text = snap_sink
        return self

    def __exit__(self, *a):
        import clematis.engine.orchestrator.logging as OLOG

        OCORE._append_jsonl, SNAP.atomic_write_text, OLOG._append_jsonl = self._saved
        return False

    def by_stream(self, name):
        return [r for n, r in self.records if n == name]

    def names(self):
        return [n for n, _ in self.records]


CANONICAL = ("t1.jsonl", "t2.jsonl", "t4.jsonl", "apply.jsonl", "turn.jsonl", "health.jsonl")


def canonical(records, drop_cache_diag=False):
    out = []
    for n, r in records:
        if n not in CANONICAL:
            continue
        r = copy.deepcopy(r)
        if drop_cache_diag:
            for k in list(r.keys()):
                if k.startswith("cache_") or k in ("max_delta",):
                    r.pop(k)
            if isinstance(r.get("t2"), dict):
                r["t2"].pop("cache_hit", None)
        out.append((n, r))
    return out


def run_turn(ctx, state, text):
    from clematis.engine.orchestrator import Orchestrator

    with TurnSpy() as spy:
        res = Orchestrator().run_turn(ctx, state, text)
    return res, spy


def stub_store_etag():
    """For obligations whose edge weights are SYMBOLIC: the store etag is a sha1 over repr(mutation), which would realise
    the weights.  Those obligations run with the T1 cache off, so the etag is unused; it is replaced by a counter."""
    from clematis.graph.store import InMemoryGraphStore

    if getattr(InMemoryGraphStore._bump_etag, "_verif_stub", False):
        return

    def _bump(self, g, change=None):
        g.version_etag = "n%d" % (int(str(g.version_etag)[1:]) + 1 if str(g.version_etag).startswith("n") else 1)

    _bump._verif_stub = True
    InMemoryGraphStore._bump_etag = _bump
