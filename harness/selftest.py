"""Engine self-test: obligations with known verdicts.  A wrong verdict here is a
harness error (exit 2), never a property verdict.  Guards against an engine patch
failing silently inside the repository's `except Exception` handlers."""
from __future__ import annotations

import math

from engine import symx as H


@H.ob(model="real", quick=40, thorough=40, expect="CONFIRMED", note="int(symbolic float) truncates in SMT")
def st_int_trunc(v: float) -> bool:
    """
    pre: math.isfinite(v) and abs(v) < 1e6
    post: _
    """
    i = int(v)
    return H.verdict(isinstance(i, int) and abs(i) <= abs(v) and abs(v) - abs(i) < 1)


@H.ob(model="real", quick=40, thorough=40, expect="REFUTED", note="int(v) != 7 must be refuted with 7.x")
def st_int_seven(v: float) -> bool:
    """
    pre: math.isfinite(v) and abs(v) < 1e6
    post: _
    """
    try:
        return int(v) != 7
    except Exception:
        return True


@H.ob(model="real", quick=40, thorough=40, expect="CONFIRMED", note="sqrt lemma")
def st_sqrt(x: float) -> bool:
    """
    pre: 0 <= x <= 100
    post: _
    """
    r = H.sym_sqrt(x)
    return H.verdict(r >= 0 and r * r == x and r <= 10)


@H.ob(model="ieee", quick=40, thorough=40, expect="REFUTED", note="NaN escapes a min/max clamp in the exact IEEE model")
def st_nan_clamp(x: float) -> bool:
    """
    post: _
    """
    y = min(max(x, -1.0), 1.0)
    return -1.0 <= y <= 1.0


@H.ob(model="none", quick=40, thorough=40, expect="REFUTED", note="integer boundary must be found")
def st_int_boundary(a: int, b: int) -> bool:
    """
    pre: b > 0
    post: _
    """
    return not (a - b < 0 and a >= 1234567 and a % 7 == 3)
