"""C14 — config validation is total, pure, consistent, and admits only runnable configs.

Real code: configs.validate (validate_config / validate_config_api / validate_config_verbose / compat kwargs form).
Obligations are GENERATED from the validator's own DEFAULTS tree (plus a supplemental list of documented keys that
have no default), so a new leaf gets obligations automatically.  One job per top-level section.
"""
from __future__ import annotations

import copy
import math
from types import SimpleNamespace as NS

from engine import symx as H
import configs.validate as V
from clematis.errors import ConfigError


def _walk(d, pre=()):
    for k, v in d.items():
        if isinstance(v, dict) and v:
            yield from _walk(v, pre + (k,))
        else:
            yield pre + (k,), v


EXTRA = [
    ("t1", "iter_cap"), ("t1", "queue_budget"), ("t1", "node_budget"), ("t1", "radius_cap"), ("t1", "decay", "rate"), ("t1", "decay", "floor"),
    ("t1", "decay", "alpha"), ("t1", "decay", "mode"), ("t1", "cache", "enabled"),
    ("t2", "exact_recent_days"), ("t2", "clusters_top_m"), ("t2", "residual_cap_per_turn"), ("t2", "owner_scope"), ("t2", "tiers"),
    ("t2", "quality", "enabled"), ("t2", "quality", "shadow"), ("t2", "quality", "mmr", "lambda"), ("t2", "quality", "mmr", "k"),
    ("t2", "quality", "fusion", "alpha_semantic"), ("t2", "cache", "enabled"), ("t2", "reader", "mode"),
    ("t3", "tokens"), ("t3", "temp"), ("t3", "apply_ops"), ("t3", "policy", "tau_high"), ("t3", "policy", "tau_low"), ("t3", "policy", "epsilon_edit"),
    ("t4", "cooldowns", "EditGraph"),
    ("perf", "t1", "caps", "frontier"), ("perf", "t1", "caps", "visited"), ("perf", "t1", "dedupe_window"), ("perf", "t1", "cache", "max_entries"),
    ("perf", "t1", "cache", "max_bytes"), ("perf", "t2", "cache", "max_entries"), ("perf", "t2", "cache", "max_bytes"), ("perf", "t2", "embed_store_dtype"),
    ("perf", "t2", "precompute_norms"), ("perf", "snapshots", "compression"), ("perf", "snapshots", "level"), ("perf", "snapshots", "delta_mode"),
    ("perf", "snapshots", "every_n_turns"), ("perf", "parallel", "t1"), ("perf", "parallel", "t2"), ("perf", "parallel", "agents"),
    ("k_surface",), ("surface_method",), ("version",), ("budgets", "time_ms"), ("flags", "allow_reflection"),
]
_DEF = list(_walk(V.DEFAULTS))
LEAVES = [p for p, _ in _DEF] + EXTRA
SECTIONS = sorted({p[0] for p in LEAVES})
_NONNUM_EXTRA = {("t1", "decay", "mode"), ("t1", "cache", "enabled"), ("t2", "owner_scope"), ("t2", "tiers"), ("t2", "quality", "enabled"), ("t2", "quality", "shadow"),
                 ("t2", "cache", "enabled"), ("t2", "reader", "mode"), ("t3", "apply_ops"), ("perf", "t2", "embed_store_dtype"), ("perf", "t2", "precompute_norms"),
                 ("perf", "snapshots", "compression"), ("perf", "snapshots", "delta_mode"), ("perf", "parallel", "t1"), ("perf", "parallel", "t2"), ("perf", "parallel", "agents"),
                 ("surface_method",), ("version",), ("flags", "allow_reflection")}
# numeric-ish leaves: default is int/float/None, or a supplemental numeric key
NUM = [i for i, (p, v) in enumerate(_DEF) if (isinstance(v, (int, float)) and not isinstance(v, bool)) or v is None] + \
      [len(_DEF) + i for i, p in enumerate(EXTRA) if p not in _NONNUM_EXTRA]
ALL = list(range(len(LEAVES)))
_FLOATY = {("t1", "node_budget"), ("t1", "decay", "rate"), ("t1", "decay", "floor"), ("t1", "decay", "alpha"), ("t2", "quality", "mmr", "lambda"),
           ("t2", "quality", "fusion", "alpha_semantic"), ("t3", "temp"), ("t3", "policy", "tau_high"), ("t3", "policy", "tau_low"), ("t3", "policy", "epsilon_edit")}
_INT_BUT_FLOATED = {("scheduler", "budgets", "wall_ms"), ("scheduler", "quantum_ms"), ("scheduler", "budgets", "t2_k"), ("t2", "k_retrieval"), ("t4", "churn_cap_edges"),
                    ("t4", "snapshot_every_n_turns"), ("graph", "observe_top_k"), ("perf", "parallel", "max_workers")}
NUM_FLOAT = NUM if H.THOROUGH else [i for i in NUM if (i < len(_DEF) and (isinstance(_DEF[i][1], float) or _DEF[i][0] in _INT_BUT_FLOATED)) or (i >= len(_DEF) and EXTRA[i - len(_DEF)] in _FLOATY)]
NUM_INT = NUM if H.THOROUGH else [i for i in NUM if i not in NUM_FLOAT or (i < len(_DEF) and _DEF[i][0] in _INT_BUT_FLOATED)]
# leaves whose check is a set-membership test (hash() realises a symbolic int and CrossHair then enumerates values for ever): value bounded there
SETLEAF = [i for i, p in enumerate(LEAVES) if p in (("t2", "hybrid", "walk_hops"), ("t3", "max_rag_loops"))]


def _mk(path, value):
    cfg = {}
    cur = cfg
    for k in path[:-1]:
        cur[k] = {}
        cur = cur[k]
    cur[path[-1]] = value
    return cfg


def _same(a, b) -> bool:
    """NaN-aware, type-strict deep equality."""
    if type(a) is not type(b):
        return False
    if isinstance(a, dict):
        return list(a.keys()) == list(b.keys()) and all(_same(a[k], b[k]) for k in a)
    if isinstance(a, (list, tuple)):
        return len(a) == len(b) and all(_same(x, y) for x, y in zip(a, b))
    if isinstance(a, float):
        return (a != a and b != b) or a == b
    return a == b


def _verdicts(cfg, full=True):
    """Runs the API variants on cfg.  Returns None if anything but ConfigError escapes, the input is mutated or the
    variants disagree; else (accepted, normalised, messages)."""
    before = copy.deepcopy(cfg)
    try:
        try:
            out = V.validate_config(cfg)
            acc, msgs = True, []
        except ConfigError as e:
            out, acc = None, False
            msgs = str(e).strip().split("\n")
        if not _same(cfg, before):
            return None
        ok2, errs2, norm2 = V.validate_config_api(cfg)          # also the "second call equal" purity check
        errs3 = None
        if full:
            errs3, warns3 = V.validate_config(cfg, strict=True)  # compat form: runs the normaliser + the verbose API
        if not _same(cfg, before):
            return None
    except Exception:
        return None
    agree = (ok2 == acc) and (errs3 is None or (errs3 == []) == acc)
    if acc:
        agree = agree and _same(norm2, out) and errs2 == []
    else:
        agree = agree and norm2 is None and errs2 == msgs and (errs3 is None or errs3 == msgs) and len(errs2) >= 1
    if not agree:
        return None
    return acc, out, msgs


def _get(d, path):
    cur = d
    for k in path:
        if not isinstance(cur, dict) or k not in cur:
            return None
        cur = cur[k]
    return cur


# independent range table (what the engine needs in order to run), written from the documented semantics
RANGES = {
    ("t2", "k_retrieval"): lambda x: isinstance(x, int) and x >= 1,
    ("t2", "sim_threshold"): lambda x: -1.0 <= x <= 1.0,
    ("t3", "max_rag_loops"): lambda x: x in (0, 1),
    ("t3", "max_ops_per_turn"): lambda x: isinstance(x, int) and 1 <= x <= 16,
    ("t4", "delta_norm_cap_l2"): lambda x: x > 0,
    ("t4", "novelty_cap_per_node"): lambda x: 0 < x <= 1.0,
    ("t4", "churn_cap_edges"): lambda x: isinstance(x, int) and x >= 0,
    ("t4", "snapshot_every_n_turns"): lambda x: isinstance(x, int) and x >= 1,
    ("t1", "queue_budget"): lambda x: isinstance(x, int) and x >= 0,
    ("t1", "iter_cap"): lambda x: isinstance(x, int) and x >= 0,
    ("t1", "node_budget"): lambda x: x > 0,
    ("graph", "coactivation_threshold"): lambda x: 0.0 <= x <= 1.0,
    ("graph", "observe_top_k"): lambda x: isinstance(x, int) and x >= 1,
    ("graph", "pair_cap_per_obs"): lambda x: isinstance(x, int) and x >= 0,
    ("graph", "update", "alpha"): lambda x: x > 0,
    ("graph", "decay", "half_life_turns"): lambda x: isinstance(x, int) and x >= 1,
    ("graph", "decay", "floor"): lambda x: x >= 0,
    ("scheduler", "quantum_ms"): lambda x: isinstance(x, int) and x >= 1,
    ("scheduler", "fairness", "max_consecutive_turns"): lambda x: isinstance(x, int) and x >= 1,
    ("scheduler", "fairness", "aging_ms"): lambda x: isinstance(x, int) and x >= 0,
    ("scheduler", "budgets", "t1_iters"): lambda x: x is None or (isinstance(x, int) and x >= 0),
    ("scheduler", "budgets", "t2_k"): lambda x: x is None or (isinstance(x, int) and x >= 0),
    ("scheduler", "budgets", "t3_ops"): lambda x: x is None or (isinstance(x, int) and x >= 0),
    ("scheduler", "budgets", "wall_ms"): lambda x: x is None or (isinstance(x, int) and x >= 1),
    ("perf", "parallel", "max_workers"): lambda x: isinstance(x, int) and x >= 0,
}


def _cross_ok(out) -> bool:
    """Documented cross-field rules on the normalised config."""
    try:
        sb = out.get("scheduler", {})
        wall = (sb.get("budgets") or {}).get("wall_ms")
        if wall is not None and not (wall >= sb.get("quantum_ms", 20)):
            return False
        t4 = out.get("t4", {})
        if not (t4.get("weight_min", -1.0) < t4.get("weight_max", 1.0)):
            return False
        g = out.get("graph", {})
        gu = g.get("update", {})
        if not (gu.get("clamp_min", -1.0) < gu.get("clamp_max", 1.0)):
            return False
        if not ((g.get("decay") or {}).get("floor", 0.0) <= gu.get("clamp_max", 1.0)):
            return False
    except Exception:
        return False
    return True


def _range_ok(path, out) -> bool:
    if not _cross_ok(out):
        return False
    chk = RANGES.get(tuple(path))
    if chk is None:
        return True
    val = _get(out, path)
    try:
        return bool(chk(val))
    except Exception:
        return False


def _leaf_check(li, value, full=True) -> bool:
    path = LEAVES[li]
    r = _verdicts(_mk(path, value), full)
    if r is None:
        return False
    acc, out, msgs = r
    if acc and not _range_ok(path, out):
        return False
    return True


_T = ("configs/validate.py:_validate_config_normalize_impl", "configs/validate.py:validate_config", "configs/validate.py:validate_config_api", "configs/validate.py:validate_config_verbose")
_NOTE = ("totality (only ConfigError escapes), purity (input deep-equal afterwards, second call equal), agreement of validate_config / validate_config_api / "
         "validate_config_verbose / compat kwargs form (verdict, messages, normalised value), accepted values satisfy the independent range table")


@H.ob(model="none", quick=300, thorough=600, targets=_T, split={"li": NUM_INT}, witness_first_only=True,
      bounds="one numeric leaf at a time (every int/float/None leaf of the validator's DEFAULTS tree + the supplemental numeric keys: %d leaves, one job each) set to an UNBOUNDED symbolic int (|v| <= 4 for the two set-membership leaves; quick tier: int-typed leaves only); rest of the config absent" % len(NUM),
      note="C14 int leaves: " + _NOTE)
def leaf_int(li: int, v: int) -> bool:
    """
    pre: 0 <= li < len(LEAVES)
    pre: li not in SETLEAF or -4 <= v <= 4
    post: _
    """
    return H.verdict(_leaf_check(li, v, H.THOROUGH))


@H.ob(model="real", quick=300, thorough=600, targets=_T, split={"li": NUM_FLOAT}, witness_first_only=True,
      bounds="one numeric leaf at a time set to a symbolic float: finite real (exact arithmetic; int(v) truncation in SMT) or one of NaN / +inf / -inf (alternatives of the float model); quick tier: float-typed leaves only",
      note="C14 float leaves incl. NaN/inf: " + _NOTE)
def leaf_float(li: int, v: float) -> bool:
    """
    pre: 0 <= li < len(LEAVES)
    pre: li not in SETLEAF or not (v == v) or -4 <= v <= 4
    post: _
    """
    return H.verdict(_leaf_check(li, v, H.THOROUGH))


MISC = [None, "x"] + ([{"a": 1}, True, "", "1", "nan", [], 10 ** 30, False, "-1", "inf", "1e400", {}, [1], -(10 ** 30), -0.0, 1e308, "true", "off", ("t",), b"x"] if H.THOROUGH else [])


@H.ob(model="none", quick=None, thorough=600, targets=_T, split={"li": ALL}, witness_first_only=True,
      bounds="every leaf (%d, one job each) set to one of %d wrong-typed / extreme values by symbolic index (quick: None, str; thorough adds dict, bools, numeric-looking strings, 'nan'/'inf', containers, 10**30, -0.0, 1e308, tuple, bytes)" % (len(LEAVES), len(MISC)),
      note="C14 wrong-typed leaves: " + _NOTE)
def leaf_misc(li: int, vi: int) -> bool:
    """
    pre: 0 <= li < len(LEAVES) and 0 <= vi < len(MISC)
    post: _
    """
    return H.verdict(_leaf_check(li, copy.deepcopy(MISC[vi]), True))


SPECIAL = [float("inf"), float("-inf"), 10 ** 400, "1e999"]


@H.ob(model="none", quick=400, thorough=900, targets=_T, split={"vi": [0, 1, 2, 3], "lh": [0, 1, 2]},
      bounds="every numeric leaf (symbolic index over %d leaves) set to +inf, -inf, the int 10**400 or the string '1e999'" % len(NUM),
      note="C14 overflowing values: " + _NOTE)
def leaf_special(li: int, vi: int, lh: int) -> bool:
    """
    pre: 0 <= li < len(NUM) and 0 <= vi <= 3 and 0 <= lh <= 2 and li % 3 == lh
    post: _
    """
    return H.verdict(_leaf_check(NUM[li], SPECIAL[vi], False))


KEYS = [0, None, ("t", 1), "zz", "", "enabeld"] + ([1.5, True, "cach", "T1", 10 ** 20] if H.THOROUGH else [])
NEST = [(), ("t1",), ("t1", "cache"), ("t2",), ("t2", "ranking"), ("t2", "hybrid"), ("t3",), ("t3", "llm"), ("t3", "reflection"), ("t4",), ("t4", "cache"), ("t4", "cooldowns"),
        ("graph",), ("graph", "update"), ("graph", "decay"), ("graph", "merge"), ("graph", "promotion"), ("scheduler",), ("scheduler", "budgets"), ("scheduler", "fairness"),
        ("perf",), ("perf", "parallel"), ("perf", "metrics"), ("perf", "t1"), ("perf", "t2"), ("perf", "snapshots"), ("budgets",), ("flags",)]


@H.ob(model="none", quick=400, thorough=900, targets=_T + ("configs/validate.py:_suggest_key", "configs/validate.py:_lev"),
      bounds="an unknown / non-string key (int, float, None, bool, tuple, misspelt, empty, huge int) inserted at each of %d nesting levels, value 1" % len(NEST),
      split={"ki": list(range(len(KEYS)))},
      note="C14 unknown and non-string keys at any level: " + _NOTE)
def odd_keys(ki: int, ni: int) -> bool:
    """
    pre: 0 <= ki < len(KEYS) and 0 <= ni < len(NEST)
    post: _
    """
    cfg = {}
    cur = cfg
    for k in NEST[ni]:
        cur[k] = {}
        cur = cur[k]
    cur[KEYS[ki]] = 1
    return H.verdict(_verdicts(cfg) is not None)


@H.ob(model="none", quick=300, thorough=600, targets=_T, split={"v0": [0, 1, 2, 3, 4, 5, 6]},
      bounds="a whole section replaced by a non-mapping (None, list, str, int, bool, object with __dict__, dict with junk) by symbolic index, together with t4 replaced by a list",
      note="C14 wrong-typed sections: only ConfigError escapes from any API variant")
def odd_sections(s0: int, v0: int) -> bool:
    """
    pre: 0 <= s0 < len(SECTIONS) and 0 <= v0 <= 6
    post: _
    """
    vals = [None, [], "x", 3, True, NS(enabled=True), {"enabled": "maybe"}]
    cfg = {SECTIONS[s0]: copy.deepcopy(vals[v0])}
    cfg.setdefault("t4", [])
    try:
        try:
            V.validate_config(cfg)
        except ConfigError:
            pass
        V.validate_config_api(cfg)
        V.validate_config(cfg, verbose=True)
    except Exception:
        return False
    return H.verdict(True)


# ----------------------------------------------------------------------------- engine contract


@H.ob(model="none", quick=400, thorough=900,
      targets=("configs/validate.py:validate_config", "clematis/engine/stages/t1.py:t1_propagate", "clematis/engine/stages/t4.py:t4_filter", "clematis/engine/apply.py:apply_changes", "clematis/engine/stages/t2/core.py:t2_semantic"),
      stubs=("t1.stable_key and t2.core.stable_key -> constant (both stage caches are off; keeps symbolic knobs away from json.dumps); apply.write_snapshot -> recorder",),
      bounds="one numeric engine knob at a time, by symbolic index over {t1.queue_budget, t1.iter_cap, t1.radius_cap, t4.churn_cap_edges, t4.snapshot_every_n_turns, t2.k_retrieval, scheduler.budgets.t1_pops/t1_iters/t2_k/t3_ops, t3.max_ops_per_turn} set to an unbounded symbolic int; the config must first be ACCEPTED by the real validator (else the path is vacuous); then the stages T1, T2, T4+apply run on world W3/M3 under it",
      split={"ki": list(range(11))},
      note="C14 engine contract: every configuration the validator accepts lets the stages execute without raising (stage-level; whole turns are run in the turn-level harness)")
def engine_contract(ki: int, v: int) -> bool:
    """
    pre: 0 <= ki <= 10
    post: _
    """
    from harness import world as W
    import clematis.engine.stages.t1 as T1
    import clematis.engine.stages.t4 as T4
    import clematis.engine.apply as AP
    from clematis.engine.stages.t2 import t2_semantic
    from clematis.engine.types import Plan, ProposedDelta

    knobs = [("t1", "queue_budget"), ("t1", "iter_cap"), ("t1", "radius_cap"), ("t4", "churn_cap_edges"), ("t4", "snapshot_every_n_turns"), ("t2", "k_retrieval"),
             ("scheduler", "budgets", "t1_pops"), ("scheduler", "budgets", "t1_iters"), ("scheduler", "budgets", "t2_k"), ("scheduler", "budgets", "t3_ops"), ("t3", "max_ops_per_turn")]
    raw = _mk(knobs[ki], v)
    W.deep_update(raw, {"t1": {"cache": {"enabled": False}}, "t2": {"cache": {"enabled": False}}, "scheduler": {"enabled": True}})
    try:
        cfg = V.validate_config(raw)
    except ConfigError:
        return True
    W.reset_globals()
    import clematis.engine.stages.t2.core as T2CORE
    saved_key, saved_snap, saved_key2 = T1.stable_key, AP.write_snapshot, T2CORE.stable_key
    T1.stable_key = lambda o: "K"
    T2CORE.stable_key = lambda o: "K"  # the T2 key is built (json.dumps) even with the cache off and holds k_retrieval / the t2_k budget
    AP.write_snapshot = lambda *a, **k: "SNAP"
    try:
        ctx = W.make_ctx(cfg, turn_id=3)
        sb = {k: val for k, val in (cfg.get("scheduler", {}).get("budgets", {}) or {}).items() if val is not None and k in ("t1_pops", "t1_iters", "t2_k", "t3_ops")}
        ctx.slice_budgets = sb
        state = W.make_state()
        try:
            t1 = T1.t1_propagate(ctx, state, "alpha beta")
            t2 = t2_semantic(ctx, state, "alpha beta", t1)
            plan = Plan(version="t3-plan-v1", ops=[], deltas=[ProposedDelta("node", "a", "weight", 0.2, None, 0), ProposedDelta("node", "b", "weight", -0.4, None, 1)])
            t4 = T4.t4_filter(ctx, state, t1, t2, plan, "")
            AP.apply_changes(ctx, state, t4)
        except Exception:
            return False
    finally:
        T1.stable_key, AP.write_snapshot, T2CORE.stable_key = saved_key, saved_snap, saved_key2
        W.reset_globals()
    return H.verdict(True)
