"""C06 — snapshots round-trip the state they were written from.

Real code: clematis.engine.snapshot (write_snapshot, load_latest_snapshot, _sanitize_gel_for_write/_for_load,
_graph_bounds_from_cfg, _clamp, _round6, _export_store_for_snapshot, _import_store_from_snapshot,
_pick_latest_snapshot_path, _write_sidecar_meta).  File writes are captured in memory (atomic path: C08).
"""
from __future__ import annotations

import copy
import json
import math
import os
from types import SimpleNamespace as NS

from engine import symx as H
from harness import world as W
import clematis.engine.snapshot as S


def _ctx(wmin, wmax, eps=0.0, graph=True):
    cfg = {"t4": {"weight_min": -1.0, "weight_max": 1.0, "snapshot_dir": W.scratch_dir("snaps")}}
    if graph:
        cfg["graph"] = {"weight_min": wmin, "weight_max": wmax, "decay": {"epsilon_prune": eps}}
    ad = W.to_attr(cfg)
    return NS(turn_id=4, agent_id="A", cfg=ad, config=ad)


def _ordered(obj):
    """Structure with dict insertion order made explicit (equal structures <=> equal json.dumps text)."""
    if isinstance(obj, dict):
        return ("D", tuple((k, _ordered(v)) for k, v in obj.items()))
    if isinstance(obj, (list, tuple)):
        return ("L", tuple(_ordered(v) for v in obj))
    return obj


class _JsonShim:
    """Under symbolic execution json.dumps would realise symbolic weights (C encoder).  The shim keeps the payload
    as an ordered structure; natively (replay, witnesses) the real json module is used."""

    def __init__(self, real):
        self.real = real

    def dumps(self, obj, **kw):
        if H.is_symbolic_run():
            return ("PAYLOAD", _ordered(copy.deepcopy(obj)), copy.deepcopy(obj))
        return self.real.dumps(obj, **kw)

    def loads(self, text):
        if isinstance(text, tuple) and text and text[0] == "PAYLOAD":
            return copy.deepcopy(text[2])
        return self.real.loads(text)

    def __getattr__(self, n):
        return getattr(self.real, n)


def _parse(body):
    if isinstance(body, tuple) and body and body[0] == "PAYLOAD":
        return copy.deepcopy(body[2])
    return json.loads(body)


def _same_body(a, b):
    if isinstance(a, tuple) and isinstance(b, tuple):
        return a[1] == b[1]
    return a == b


class Capture:
    """Captures atomic_write_text calls of clematis.engine.snapshot and serves them back to the loader."""

    def __init__(self, shim=True):
        self.files = {}
        self.shim = shim

    def __enter__(self):
        self.saved = (S.atomic_write_text, S._pick_latest_snapshot_path, S._read_header_payload, S.os.path.isfile, S._ensure_dir, S.json)
        if self.shim:
            S.json = _JsonShim(S.json)
        S.atomic_write_text = lambda path, text, **kw: self.files.__setitem__(str(path), text)
        S._ensure_dir = lambda p: None
        S._pick_latest_snapshot_path = lambda d: next((p for p in self.files if p.endswith(".json")), None)
        S._read_header_payload = lambda p: (None, _parse(self.files[str(p)]))
        S.os.path.isfile = lambda p: str(p) in self.files
        return self

    def __exit__(self, *a):
        S.atomic_write_text, S._pick_latest_snapshot_path, S._read_header_payload, S.os.path.isfile, S._ensure_dir, S.json = self.saved
        return False

    def body(self):
        return next(t for p, t in self.files.items() if p.endswith(".json"))


# ----------------------------------------------------------------------------- C06.a sanitiser kernel
@H.ob(model="ieee", quick=300, thorough=600,
      targets=("clematis/engine/snapshot.py:_clamp", "clematis/engine/snapshot.py:_round6", "clematis/engine/snapshot.py:_graph_bounds_from_cfg"),
      bounds="weight: every double incl. NaN and +-inf; bounds wmin/wmax: every double (wmin<wmax or not: the documented fallback to [-1,1] applies); exact IEEE, comparisons only (round() is applied to the clamped value only through _round6's finite test here)",
      note="C06.a clamp kernel: the clamped weight lies in the effective bounds for every non-NaN input, non-finite weights map to the documented value, invalid bounds fall back to [-1,1]")
def clamp_kernel(w: float, wmin: float, wmax: float) -> bool:
    """
    post: _
    """
    b = S._graph_bounds_from_cfg(_ctx(wmin, wmax))
    lo, hi = b["wmin"], b["wmax"]
    if wmin < wmax:
        ok = lo == wmin and hi == wmax
    else:
        ok = lo == -1.0 and hi == 1.0
    c = S._clamp(w, lo, hi)
    if w == w and not (lo != lo or hi != hi):
        ok = ok and lo <= c <= hi
    r_nonfinite = S._round6(float("inf")) == 0.0 and S._round6(float("nan")) == 0.0
    return H.verdict(ok and r_nonfinite)


REL = ["coact", "concept", ""]


def _gel(w0, w1, swap, ri, as_list, extra_dup):
    a, b = ("n:b", "n:a") if swap else ("n:a", "n:b")
    e0 = {"src": a, "dst": b, "rel": REL[ri], "weight": w0, "updated_at": None, "attrs": {"coact": 2}}
    e1 = {"src": "n:b", "dst": "n:ç", "rel": "coact", "weight": w1, "updated_at": None, "attrs": {}}
    es = [e0, e1]
    if extra_dup:
        es.append({"src": "n:b", "dst": "n:a", "rel": REL[ri], "weight": w1, "updated_at": None, "attrs": {}})
    if as_list:
        edges = es
    else:
        edges = {("k%d" % i): e for i, e in enumerate(es)}
    return {"nodes": {"n:a": {"id": "n:a", "label": "alpha"}, "n:ç": {"id": "n:ç", "label": "ç"}}, "edges": edges,
            "meta": {"schema": "v1.1", "merges": [{"nodes": ["n:a"]}], "splits": [], "promotions": [], "concept_nodes_count": 1}}


@H.ob(model="realfin", quick=400, thorough=900,
      targets=("clematis/engine/snapshot.py:write_snapshot", "clematis/engine/snapshot.py:load_latest_snapshot", "clematis/engine/snapshot.py:_sanitize_gel_for_write", "clematis/engine/snapshot.py:_sanitize_gel_for_load", "clematis/engine/snapshot.py:_round6"),
      stubs=("snapshot.atomic_write_text / _read_header_payload / _pick_latest_snapshot_path -> in-memory capture; snapshot.json.dumps -> order-preserving structure under symbolic execution (the C encoder would realise symbolic weights), real json natively", "snapshot._round6 -> identity under symbolic execution (rounding decided in round6_kernel); real _round6 in native replay"),
      bounds="GEL graph with 2 edges (+ optional duplicate of the first pair in the other orientation): 2 symbolic finite weights in [-3,3] (quick: the second fixed at 0.25), bounds wmin<wmax symbolic in [-2,2], epsilon_prune symbolic in [0,1], first edge listed in either orientation, relation by index, edges as dict or list, unicode node id; store with a .w map of one symbolic weight; version '7'",
      split={"as_list": [False, True], "swap": [False, True], "extra_dup": [False, True]},
      note="C06.a/b write -> load -> write: the written weights lie within [wmin,wmax] (6-decimal rounding), one edge per unordered pair under the canonical src->dst key, the loaded state carries version, store weights and GEL graph, and writing the loaded state again reproduces the body text exactly")
def gel_roundtrip(w0: float, w1: float, sw: float, wmin: float, wmax: float, eps: float, swap: bool, ri: int, as_list: bool, extra_dup: bool) -> bool:
    """
    pre: -3.0 <= w0 <= 3.0 and -3.0 <= w1 <= 3.0 and -5.0 <= sw <= 5.0
    pre: -2.0 <= wmin and wmin < wmax and wmax <= 2.0 and 0.0 <= eps <= 1.0 and 0 <= ri <= 2
    pre: H.THOROUGH or (w1 == 0.25 and ri == 0)
    post: _
    """
    ctx = _ctx(wmin, wmax, eps)
    store = NS(w={("node", "n:a", "weight"): sw})
    state = {"store": store, "graph": _gel(w0, w1, swap, ri, as_list, extra_dup), "version_etag": "7"}
    src_graph = copy.deepcopy(state["graph"])
    real_round6 = S._round6
    if H.is_symbolic_run():
        # rounding to 6 decimals is decided separately (round6_kernel); mixing ToInt with the clamp/prune
        # case analysis makes every query slow.  Natively (replay, witnesses) the real _round6 runs.
        S._round6 = lambda x: x
    try:
        return H.verdict(_gel_roundtrip_body(ctx, state, src_graph, wmin, wmax, eps, sw))
    finally:
        S._round6 = real_round6


def _gel_roundtrip_body(ctx, state, src_graph, wmin, wmax, eps, sw):
    with Capture() as cap:
        S.write_snapshot(ctx, state, "7", 1, [])
        body1 = cap.body()
        p1 = _parse(body1)
        fresh = {"store": NS(w={})}
        rep = S.load_latest_snapshot(ctx, fresh)
        cap.files.clear()
        S.write_snapshot(ctx, fresh, str(fresh.get("version_etag")), 1, [])
        body2 = cap.body()
    if state["graph"] != src_graph:
        return False
    ok = rep["loaded"] is True and fresh.get("version_etag") == "7" and p1["schema_version"] == "v1" and p1["version_etag"] == "7"
    edges = p1["gel"]["edges"]
    ok = ok and set(edges.keys()) == {"n:a→n:b", "n:b→n:ç"}
    tol = 5e-7 + 1e-12
    for k, rec in edges.items():
        # clamped into the bounds, or pruned to exactly 0.0 by epsilon_prune (documented)
        ok = ok and ((wmin - tol <= rec["weight"] <= wmax + tol) or (rec["weight"] == 0.0 and eps > 0.0)) and rec["id"] == k
        ok = ok and (rec["weight"] == 0.0 or abs(rec["weight"]) >= eps - tol)
    ok = ok and fresh["store"].w == {("node", "n:a", "weight"): sw}
    ok = ok and fresh["graph"]["edges"].keys() == edges.keys() and fresh["graph"]["nodes"] == p1["gel"]["nodes"]
    ok = ok and _same_body(body2, body1)
    return ok


@H.ob(model="none", quick=200, thorough=400,
      targets=("clematis/engine/snapshot.py:write_snapshot", "clematis/engine/snapshot.py:load_latest_snapshot", "clematis/engine/snapshot.py:_sanitize_gel_for_write"),
      stubs=("as gel_roundtrip",),
      bounds="edge weights by symbolic index over {NaN, +inf, -inf, 5.0, -5.0, 0.1234564999, 1e-9, -0.0, '0.5' (string)}; bounds [-0.5, 0.75]; both orientations; dict or list",
      split={"i0": list(range(9))},
      note="C06.a non-finite / out-of-range / mistyped weights: +-inf land on the bounds, NaN on the documented value, the body is valid JSON without NaN/Infinity tokens and write-load-write is a fixed point")
def odd_weights(i0: int, i1: int, swap: bool, as_list: bool) -> bool:
    """
    pre: 0 <= i0 <= 8 and 0 <= i1 <= 8
    post: _
    """
    vals = [float("nan"), float("inf"), float("-inf"), 5.0, -5.0, 0.1234564999, 1e-9, -0.0, "0.5"]
    ctx = _ctx(-0.5, 0.75)
    state = {"store": None, "graph": _gel(vals[i0], vals[i1], swap, 0, as_list, False), "version_etag": "3"}
    with Capture(shim=False) as cap:
        S.write_snapshot(ctx, state, "3", 0, [])
        body1 = cap.body()
        p1 = json.loads(body1)
        fresh = {}
        S.load_latest_snapshot(ctx, fresh)
        cap.files.clear()
        S.write_snapshot(ctx, fresh, str(fresh.get("version_etag")), 0, [])
        body2 = cap.body()
    ok = "NaN" not in body1 and "Infinity" not in body1 and body1 == body2

    def exp(v):
        if isinstance(v, str):
            v = float(v)
        if v is None:
            return None
        if v != v:
            return "nan"
        return max(-0.5, min(0.75, v))

    edges = p1["gel"]["edges"]
    for key, v in (("n:a→n:b", vals[i0]), ("n:b→n:ç", vals[i1])):
        e = exp(v)
        if e is None:
            continue
        if e == "nan":
            ok = ok and key in edges and -0.5 <= edges[key]["weight"] <= 0.75
        else:
            ok = ok and key in edges and abs(edges[key]["weight"] - e) <= 5e-7
    return H.verdict(ok)


# ----------------------------------------------------------------------------- C06.b store export / import
@H.ob(model="realfin", quick=200, thorough=400,
      targets=("clematis/engine/snapshot.py:_export_store_for_snapshot", "clematis/engine/snapshot.py:_import_store_from_snapshot"),
      bounds=".w map with up to 3 entries, symbolic finite weights, key shapes by symbolic index (proper 3-tuples, a 2-tuple, a string key); export_state present/raising/absent",
      note="C06.b import(export(store)) restores every well-formed weight exactly; malformed keys are skipped, a raising export_state falls back to the weight map")
def store_roundtrip(v0: float, v1: float, v2: float, n: int, shape: int, exp_mode: int) -> bool:
    """
    pre: 0 <= n <= 3 and 0 <= shape <= 2 and 0 <= exp_mode <= 2
    post: _
    """
    keys = [("node", "n:a", "weight"), ("edge", "e:ç", "weight"), [("node", "x", "w"), ("bad", "two"), "stringkey"][shape]]
    w = {}
    for k, v in list(zip(keys, (v0, v1, v2)))[:n]:
        w[k] = v

    class St:
        pass

    st = St()
    st.w = dict(w)
    if exp_mode == 1:
        st.export_state = lambda: (_ for _ in ()).throw(RuntimeError("boom"))
    elif exp_mode == 2:
        st.export_state = lambda: {"blob": [1, 2]}
        st.import_state = lambda s: setattr(st, "imported", s)
    out = copy.deepcopy(S._export_store_for_snapshot(st))
    st2 = St()
    st2.w = {"stale": 1.0}
    if exp_mode == 2:
        got = {}
        st2.import_state = lambda s: got.update(s)
        ok = S._import_store_from_snapshot(st2, out) is True and got == {"blob": [1, 2]}
        return H.verdict(ok)
    ok = S._import_store_from_snapshot(st2, out) is True
    exp = {k: v for k, v in w.items() if isinstance(k, tuple) and len(k) == 3}
    return H.verdict(ok and st2.w == exp)


# ----------------------------------------------------------------------------- C06.c discovery
NAMES = ["state_A.json", "state_A.json.meta", "state_A.json.tmp1", "state_B.json", "snap_000002.json", "snap_000010.json", "snap_x.json",
         "snapshot-7.full.json", "x.json.zst", "state_A.k3x9.json.part", "notes.txt"]


@H.ob(model="none", quick=300, thorough=600,
      targets=("clematis/engine/snapshot.py:_pick_latest_snapshot_path",),
      stubs=("snapshot.os.listdir / isdir / getmtime -> symbolic directory listing with symbolic mtimes",),
      bounds="presence of each of 11 file names (bodies, sidecar, temp names of the atomic writer, numbered snapshots, PR34 files, compressed, junk) by symbolic mask; mtimes of the two state_* bodies and the PR34 file symbolic ints",
      split={"lo": [0, 1, 2, 3, 4, 5, 6, 7]},
      note="C06.c discovery never returns a sidecar, temporary or non-JSON name and follows the documented preference: highest numbered snap_*, else newest state_*, else newest *.json")
def discovery(lo: int, hi: int, m0: int, m1: int, m2: int) -> bool:
    """
    pre: 0 <= lo < 8 and 0 <= hi < 256
    post: _
    """
    mask = lo + 8 * hi
    present = [n for i, n in enumerate(NAMES) if (mask >> i) % 2 == 1]
    mt = {"state_A.json": m0, "state_B.json": m1, "snapshot-7.full.json": m2, "snap_x.json": 5}
    saved = (S.os.listdir, S.os.path.isdir, S.os.path.getmtime)
    S.os.listdir = lambda d: list(present)
    S.os.path.isdir = lambda d: True
    S.os.path.getmtime = lambda p: mt.get(os.path.basename(p), 0)
    try:
        got = S._pick_latest_snapshot_path("/snaps")
    finally:
        S.os.listdir, S.os.path.isdir, S.os.path.getmtime = saved
    name = None if got is None else os.path.basename(got)
    if "snap_000010.json" in present:
        exp = ["snap_000010.json"]
    elif "snap_000002.json" in present:
        exp = ["snap_000002.json"]
    else:
        st = [n for n in ("state_A.json", "state_B.json") if n in present]
        if st:
            best = max(mt[n] for n in st)
            exp = [n for n in st if mt[n] == best]
        else:
            js = [n for n in present if n.endswith(".json")]
            if js:
                best = max(mt.get(n, 0) for n in js)
                exp = [n for n in js if mt.get(n, 0) == best]
            else:
                exp = [None]
    ok = name in exp
    if name is not None:
        ok = ok and name.endswith(".json") and name in present
    return H.verdict(ok)


@H.ob(model="none", quick=200, thorough=400,
      targets=("clematis/engine/snapshot.py:_pick_latest_snapshot_path", "clematis/io/atomic.py:_make_tmp", "clematis/engine/snapshot.py:_write_sidecar_meta"),
      stubs=("clematis.io.atomic tempfile/os -> FS model (temp names built from the real prefix/suffix arguments)", "snapshot.os.listdir/getmtime -> listing of the model directory with symbolic mtimes"),
      bounds="a snapshot body and its sidecar are being (re)written: the real _make_tmp names for both are present in the directory next to the committed files; mtimes of all four files symbolic ints; committed body present or not",
      note="C06.c the temporary files of an in-flight (or crashed) snapshot write are never chosen by discovery, whatever their mtime")
def discovery_tmp(m_body: int, m_tmp: int, m_side: int, m_tmp2: int, have_body: bool) -> bool:
    """
    post: _
    """
    from engine.envmodels import FS, FakePath, install_atomic
    import clematis.io.atomic as A

    fs = FS({})
    undo = install_atomic(fs)
    try:
        t1 = str(A._make_tmp(FakePath(fs, "/snaps/state_A.json")))
        t2 = str(A._make_tmp(FakePath(fs, "/snaps/state_A.json.meta")))
    finally:
        undo()
    names = [os.path.basename(t1), os.path.basename(t2), "state_A.json.meta"] + (["state_A.json"] if have_body else [])
    mt = {os.path.basename(t1): m_tmp, os.path.basename(t2): m_tmp2, "state_A.json.meta": m_side, "state_A.json": m_body}
    saved = (S.os.listdir, S.os.path.isdir, S.os.path.getmtime)
    S.os.listdir = lambda d: list(names)
    S.os.path.isdir = lambda d: True
    S.os.path.getmtime = lambda p: mt.get(os.path.basename(p), 0)
    try:
        got = S._pick_latest_snapshot_path("/snaps")
    finally:
        S.os.listdir, S.os.path.isdir, S.os.path.getmtime = saved
    exp = "/snaps/state_A.json" if have_body else None
    return H.verdict(got == exp)


# ----------------------------------------------------------------------------- C06.d schema marker
@H.ob(model="none", quick=200, thorough=400,
      targets=("clematis/engine/snapshot.py:write_snapshot", "clematis/engine/snapshot.py:_write_sidecar_meta"),
      stubs=("snapshot.atomic_write_text -> capture",),
      split={"si": [0, 1, 2, 3, 4]},
      bounds="state shape by symbolic index: no store / store without export / .w store / export_state store / raising export; graph absent / empty / garbled (list, str) / valid; state as dict or object; turn id int / str / None",
      note="C06.d every snapshot body carries schema_version == 'v1' (and the graph schema tag), and a sidecar with the same marker is written next to it")
def schema_marker(si: int, gi: int, as_obj: bool, ti: int) -> bool:
    """
    pre: 0 <= si <= 4 and 0 <= gi <= 4 and 0 <= ti <= 2
    post: _
    """
    class Raising:
        def export_state(self):
            raise ValueError("no")

    stores = [None, NS(), NS(w={("node", "a", "weight"): 0.5}), NS(export_state=lambda: {"x": 1}), Raising()]
    graphs = ["ABSENT", {}, [1, 2], "garbage", _gel(0.2, 0.3, False, 0, False, False)]
    st = {"store": stores[si], "version_etag": "9"}
    if graphs[gi] != "ABSENT":
        st["graph"] = graphs[gi]
    state = NS(**st) if as_obj else st
    ctx = _ctx(-1.0, 1.0)
    ctx.turn_id = [4, "12", None][ti]
    with Capture(shim=False) as cap:
        try:
            S.write_snapshot(ctx, state, "9", 0, [])
        except Exception:
            return False
        body = json.loads(cap.body())
        side = [t for p, t in cap.files.items() if p.endswith(".meta")]
    ok = body.get("schema_version") == "v1" and body.get("graph_schema_version") in ("v1", "v1.1") and isinstance(body.get("gel"), dict) and "store" in body
    ok = ok and len(side) == 1 and json.loads(side[0]).get("schema_version") == "v1" and side[0].endswith("\n")
    return H.verdict(ok)
