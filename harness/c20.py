"""C20 — optional subsystems fail soft: a turn always completes.

Real code: Orchestrator.run_turn with a failure injected at one (thorough: two) of the declared fail-soft sites;
the canonical records must equal those of a run in which that subsystem is switched off or idle.
"""
from __future__ import annotations

import copy
import importlib
from types import SimpleNamespace as NS

from engine import symx as H
from harness import world as W
import clematis.engine.orchestrator as ORCH
import clematis.engine.orchestrator.core as OC
from clematis.engine.stages.t3.policy import deliberate as _real_deliberate
from clematis.engine.types import ProposedDelta
import clematis.engine.apply as AP
import clematis.engine.snapshot as S
import clematis.engine.stages.t2.quality as Q
import clematis.engine.stages.t2.quality_ops as QO

RF = importlib.import_module("clematis.engine.stages.t3.reflect")


def pick(lst, i):
    for j, v in enumerate(lst):
        if i == j:
            return v
    raise IndexError(i)


EXC = [ValueError, OSError, TypeError] + ([KeyError, RuntimeError, ZeroDivisionError, AttributeError, IndexError] if H.THOROUGH else [])
SITES = ["boot_load", "gel_merge", "gel_split", "gel_promotion", "reflect_compute", "adapter_build", "hybrid_rerank", "fusion", "mmr",
         "quality_trace", "cache_invalidation", "store_apply", "sidecar_write", "reflection_log"]

BASE = {"t1": {"decay": {"mode": "exp_floor", "rate": 0.6, "floor": 0.05}}, "t4": {"snapshot_every_n_turns": 1}}


def _raiser(exc):
    def f(*a, **k):
        raise exc("injected")
    return f


class FaultyStore:
    """Graph store whose apply_deltas always raises (batch and per-delta); everything else delegates."""

    def __init__(self, inner, exc):
        self._inner = inner
        self._exc = exc

    def apply_deltas(self, gid, deltas):
        raise self._exc("store down")

    def __getattr__(self, n):
        return getattr(self._inner, n)


def _cfg_for(site, subsystem_on):
    over = copy.deepcopy(BASE)
    on = subsystem_on
    if site in ("gel_merge", "gel_split", "gel_promotion"):
        over["graph"] = {"enabled": True, "merge": {"enabled": on and site in ("gel_merge", "gel_promotion"), "min_size": 2, "min_avg_w": 0.1},
                         "split": {"enabled": on and site == "gel_split"}, "promotion": {"enabled": on and site == "gel_promotion"}}
    if site in ("reflect_compute", "reflection_log"):
        over["t3"] = {"allow_reflection": on}
        over["scheduler"] = {"budgets": {"ops_reflection": 2}}
    if site == "adapter_build":
        over["t3"] = {"backend": "llm" if on else "rulebased"}
    if site == "hybrid_rerank":
        over["t2"] = {"hybrid": {"enabled": on}}
    if site in ("fusion", "mmr"):
        over["t2"] = {"quality": {"enabled": on, "mmr": {"enabled": on and site == "mmr"}}}
    if site == "quality_trace":
        over["perf"] = {"enabled": True, "metrics": {"report_memory": True}}
        over["t2"] = {"quality": {"enabled": False, "shadow": on}}
    if site == "cache_invalidation":
        over["t4"]["cache_bust_mode"] = "on-apply"
    return W.make_cfg(over, memo=("c20", site, True if subsystem_on else False))


def _state_for(site):
    st = W.make_state()
    st["graph"] = {"nodes": {}, "edges": {"e1→e2": {"id": "e1→e2", "src": "e1", "dst": "e2", "weight": 0.6, "rel": "coact", "attrs": {}},
                                           "e2→e3": {"id": "e2→e3", "src": "e2", "dst": "e3", "weight": 0.5, "rel": "coact", "attrs": {}}},
                   "meta": {"schema": "v1.1", "merges": [], "splits": [], "promotions": [], "concept_nodes_count": 0}}
    st["_planner_reflection_flag"] = site in ("reflect_compute", "reflection_log")
    st["memory_index"] = NS(add=lambda ep: None)
    if site == "boot_load":
        st["_boot_loaded"] = False
    return st


def _planner_with_deltas(ctx, state, bundle):
    # documented hook orchestrator.t3_deliberate: the real rule-based plan plus two proposed deltas, so that T4 approves
    # something and the store hand-off (batch, then per-delta fallback) is actually exercised
    plan = _real_deliberate(bundle)
    plan.deltas = [ProposedDelta("node", "n:a", "weight", 0.1, None, 0), ProposedDelta("edge", "e:a|supports|b", "weight", -0.05, None, 1)]
    return plan


def _run(site, inject, exc):
    saved_hook = ORCH.__dict__.get("t3_deliberate")
    if site == "store_apply":
        ORCH.t3_deliberate = _planner_with_deltas
    try:
        return _run_inner(site, inject, exc)
    finally:
        if saved_hook is None:
            ORCH.__dict__.pop("t3_deliberate", None)
        else:
            ORCH.t3_deliberate = saved_hook


def _run_inner(site, inject, exc):
    W.reset_globals()
    cfg = _cfg_for(site, subsystem_on=inject)
    state = _state_for(site)
    ctx = W.make_ctx(cfg, turn_id=2, agent="A", now_ms=1000)
    patches = []

    def patch(obj, name, val):
        patches.append((obj, name, getattr(obj, name)))
        setattr(obj, name, val)

    if inject:
        r = _raiser(exc)
        if site == "boot_load":
            patch(OC, "load_latest_snapshot", r)
        elif site == "gel_merge":
            patch(OC, "gel_merge_candidates", r)
        elif site == "gel_split":
            patch(OC, "gel_split_candidates", r)
        elif site == "gel_promotion":
            patch(OC, "gel_apply_promotion", r)
        elif site == "reflect_compute":
            patch(RF, "reflect", r)
        elif site == "reflection_log":
            patch(OC, "log_t3_reflection", r)
        elif site == "adapter_build":
            patch(OC, "build_llm_adapter", r)
        elif site == "hybrid_rerank":
            patch(Q, "rerank_with_gel", r)
        elif site == "fusion":
            patch(QO, "fuse", r)
        elif site == "mmr":
            patch(QO, "maybe_apply_mmr", r)
        elif site == "quality_trace":
            patch(Q, "_emit_quality_trace", r)
        elif site == "cache_invalidation":
            state["_cache_mgr"] = NS(get=lambda ns, key: (False, None), set=lambda ns, key, v: None, invalidate_namespace=r, stats={"size": 0})
        elif site == "store_apply":
            state["store"] = FaultyStore(state["store"], exc)
        elif site == "sidecar_write":
            patch(S, "_write_sidecar_meta", r)
    elif site == "cache_invalidation":
        state["_cache_mgr"] = NS(get=lambda ns, key: (False, None), set=lambda ns, key, v: None, invalidate_namespace=lambda ns: 0, stats={"size": 0})
    try:
        res, spy = W.run_turn(ctx, state, "alpha beta")
    finally:
        for obj, name, old in reversed(patches):
            setattr(obj, name, old)
        W.reset_globals()
    canon = W.canonical(spy.records)
    return res, canon, spy


def _mask_apply(canon, site):
    out = []
    for n, r in canon:
        r = copy.deepcopy(r)
        if site == "store_apply" and n == "apply.jsonl":
            r.pop("applied", None)
        out.append((n, r))
    return out


@H.ob(model="none", quick=400, thorough=900, per_path=200,
      targets=("clematis/engine/orchestrator/core.py:Orchestrator.run_turn", "clematis/engine/apply.py:apply_changes", "clematis/engine/stages/t2/quality.py:apply_quality", "clematis/engine/snapshot.py:write_snapshot"),
      stubs=("TurnSpy log/snapshot capture", "one declared fail-soft site replaced by a function raising the chosen exception class", "store_apply site: planner = real deliberate() + two proposed deltas through the orchestrator.t3_deliberate hook, store = double whose apply_deltas always raises"),
      bounds="one real run_turn on world W3/M3 (GEL graph with 2 edges present); failure site by index over 14 declared sites (boot load, GEL merge/split/promotion, reflection compute/log, LLM adapter build, hybrid rerank, fusion, MMR, quality trace, cache invalidation, store apply, snapshot sidecar); exception class by index over 3 (quick) / 8 (thorough) classes",
      split={"si": list(range(len(SITES)))},
      note="C20 a failure at any declared fail-soft site does not abort the turn: a TurnResult is returned and the canonical T1/T2/T4/apply/turn/health records equal those of the same turn with that subsystem switched off / idle")
def fail_soft(si: int, ei: int) -> bool:
    """
    pre: 0 <= si < len(SITES) and 0 <= ei < len(EXC)
    post: _
    """
    site = pick(SITES, si)
    exc = pick(EXC, ei)
    try:
        res, canon, spy = _run(site, True, exc)
    except Exception:
        return False
    ref_res, ref_canon, ref_spy = _run(site, False, exc)
    ok = res is not None and isinstance(res.line, str)
    names = [n for n, _ in canon]
    for need in ("t1.jsonl", "t2.jsonl", "t4.jsonl", "apply.jsonl", "turn.jsonl"):
        ok = ok and need in names
    ok = ok and _mask_apply(canon, site) == _mask_apply(ref_canon, site)
    if site != "adapter_build":
        ok = ok and res.line == ref_res.line
    return H.verdict(ok)


GARBAGE = [{"gel": {"edges": {"x": {"src": "e1", "dst": "e2", "weight": 0.5, "attrs": None}}}},
           {"gel": {"edges": {"x": {"src": "e1", "dst": "e2", "weight": 0.5, "attrs": [1]}}, "nodes": {"n": None}, "meta": None}},
           [1, 2, 3], "text", {"version_etag": ["x"]}, {"store": {"weights": [1, 2]}}, {"gel": {"edges": {"k": {"src": None, "dst": None, "weight": "w"}}}},
           {"version_etag": 10 ** 30, "gel": {"edges": [{"src": 1, "dst": 2, "weight": float("nan")}]}}] + \
          ([None, [], 7, True, {}, {"version_etag": None}, {"store": "oops"}, {"store": {"weights": "abc"}}, {"gel": []}, {"gel": {"edges": "x", "nodes": 5}},
            {"gel": {"edges": {"k": "notadict"}}}, {"graph": 3}] if H.THOROUGH else [])
HEADERS = [None, {}, {"mode": "delta"}, {"mode": "delta", "delta_of": "zz", "etag_to": 5}, {"mode": "full", "etag_to": None}, "notadict"]


@H.ob(model="none", quick=400, thorough=900, per_path=200,
      targets=("clematis/engine/snapshot.py:load_latest_snapshot", "clematis/engine/snapshot.py:_sanitize_gel_for_load", "clematis/engine/snapshot.py:_import_store_from_snapshot", "clematis/engine/orchestrator/core.py:Orchestrator.run_turn"),
      stubs=("snapshot._pick_latest_snapshot_path / os.path.isfile -> a snapshot 'exists'; snapshot._read_header_payload -> returns (header, payload) chosen by symbolic index from 6 headers x 6/18 garbage/foreign payloads, or raises",),
      bounds="boot loader on corrupt / foreign snapshot content: payload by symbolic index over 8 (quick) / 20 (thorough) JSON values (wrong top-level types, wrong field types, NaN weight, huge ints), header over 6 shapes, reader raising or not; GEL (graph.enabled) on or off, so that loaded GEL content is consumed by the turn's observe/tick; then a full run_turn on a state that has not booted yet",
      split={"hi": list(range(len(HEADERS)))},
      note="C20 snapshot boot loading on garbage never aborts the turn: the first turn of a not-yet-booted state completes with the same canonical T1/T2/T4/turn records as a boot without any snapshot")
def boot_garbage(gi: int, hi: int, raises: bool, gel_on: bool) -> bool:
    """
    pre: 0 <= gi < len(GARBAGE) and 0 <= hi < len(HEADERS)
    post: _
    """
    payload = copy.deepcopy(pick(GARBAGE, gi))
    header = copy.deepcopy(pick(HEADERS, hi))

    def reader(path):
        if raises:
            raise ValueError("corrupt")
        return header, payload

    def run(with_file):
        W.reset_globals()
        over = copy.deepcopy(BASE)
        if gel_on:
            over["graph"] = {"enabled": True}
        cfg = W.make_cfg(over, memo=("c20boot", True if gel_on else False))
        state = W.make_state()
        state["_boot_loaded"] = False
        ctx = W.make_ctx(cfg, turn_id=1, agent="A")
        saved = (S._pick_latest_snapshot_path, S.os.path.isfile, S._read_header_payload)
        if with_file:
            S._pick_latest_snapshot_path = lambda d: "/snaps/state_A.json"
            S.os.path.isfile = lambda p: True
            S._read_header_payload = reader
        else:
            S._pick_latest_snapshot_path = lambda d: None
        try:
            res, spy = W.run_turn(ctx, state, "alpha")
        finally:
            S._pick_latest_snapshot_path, S.os.path.isfile, S._read_header_payload = saved
            W.reset_globals()
        keep = [(n, {k: v for k, v in r.items() if k not in ("version_etag", "snapshot")}) for n, r in W.canonical(spy.records) if n in ("t1.jsonl", "t2.jsonl", "t4.jsonl", "turn.jsonl", "apply.jsonl")]
        return res.line, keep, state.get("_boot_loaded")

    try:
        a = run(True)
        key = True if gel_on else False
        if key not in _BOOT_REF:
            # boot without any snapshot: independent of the garbage chosen, computed once per process
            _BOOT_REF[key] = run(False)
        b = copy.deepcopy(_BOOT_REF[key])
    except Exception:
        return False
    return H.verdict(a is not None and a[0] == b[0] and a[1] == b[1] and a[2] is True)


_BOOT_REF = {}
